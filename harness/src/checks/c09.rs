//! C09 — adaptive quadrature results are within tolerance of the true integral.
//!
//! Monitors over observed executions of `integrate` (tanh-sinh), `integrate_gaussian`,
//! `integrate_simpson`, `integrate_fixed` (Romberg), `integrate_laguerre`, `integrate_hermite`,
//! `integrate_chebyshev`, `integrate_chebyshev_second`:
//!   * return value against a closed-form integral (fam.rs), required only for cases inside the
//!     routine's *reliability class* (computed by the harness, see `gauss_class`, `replay`,
//!     `tanhsinh_class`, `simpson_depth`), where `Ok` is required as well;
//!   * integrand call log: every abscissa inside the integration domain; call counts;
//!   * adaptive Simpson work against the harness's own textbook scheme (Burden-Faires Alg. 4.3);
//!   * Romberg exactness on polynomials of degree <= 2n-1;
//!   * `Err` for reversed / empty intervals and negative tolerances.

#[path = "c09/fam.rs"]
mod fam;
#[path = "c09/rules.rs"]
mod rules;

use crate::json::J;
use crate::probe::{self, Guarded};
use crate::report::*;
use crate::rng::{CaseHash, Rng};
use bacon_sci::integrate::{integrate, integrate_chebyshev, integrate_chebyshev_second, integrate_fixed, integrate_gaussian, integrate_hermite, integrate_laguerre, integrate_simpson};
use fam::{Fun, Weight, EPS};
use nalgebra::ComplexField;
use num_complex::Complex64 as C;
use num_traits::FromPrimitive;

// ------------------------------------------------------------------ frozen constants
// (observed maxima are written to the evidence by every run; see the builder's report for the
// calibration runs)

/// rounding floor: FLOOR_C * eps * (term-by-term magnitude of the integrand) * (length / weight mass)
const FLOOR_C: f64 = 64.0;
/// Gauss family (Legendre, Laguerre, Hermite, both Chebyshev): |err| <= K_GAUSS * tol + floor
const K_GAUSS: f64 = 4.0;
/// tanh-sinh, 1e-8 <= tol: |err| <= K_DE * tol + floor
const K_DE: f64 = 8.0;
/// tanh-sinh, 1e-11 <= tol < 1e-8: |err| <= K_DE_SQRT * sqrt(tol) + floor
const K_DE_SQRT: f64 = 8.0;
const DE_TOL_PROPORTIONAL_FROM: f64 = 1e-8;
/// adaptive Simpson on polynomials of degree <= 5: |err| <= K_SIMPSON * tol + floor. This one is
/// a theorem, not a calibration: on every accepted panel I - S2 = (S2 - S1)/15 exactly and
/// |S2 - S1| < 10 tol / 2^L, the panels partition the interval, hence |err| < 2/3 tol (observed
/// 0.6667: the bound is attained).
const K_SIMPSON: f64 = 1.0;
/// Simpson work: calls <= WORK_MUL * N_ref + WORK_ADD
const WORK_MUL: u64 = 2;
const WORK_ADD: u64 = 16;
/// Romberg with n rows, degree <= 2n-1: |err| <= K_ROMBERG * n * eps * mag * (b-a)
/// (observed over 16 runs, 3.3e6 cases: 14.9)
const K_ROMBERG: f64 = 128.0;
/// class membership: rounding floor must stay below tol / CLASS_FLOOR_DIV
const CLASS_FLOOR_DIV: f64 = 8.0;
/// tanh-sinh class: exponential type in core units sigma*(b-a)/2 and polynomial degree
const DE_SIGMA_CORE_MAX: f64 = 6.5;
const DE_DEG_MAX: usize = 19;
/// assumed accuracy of row m of the tabulated rule sequences, in the moment sense (relative to the
/// absolute moments), in units of eps. The tabulated Laguerre / Hermite / high Legendre rows are
/// not correctly rounded (measured against the harness's own rules: Laguerre n=12 3.9e-11,
/// Hermite n=27 3.3e-11, Legendre n=12 8.7e-14, Chebyshev 7e-15); a tolerance below what the rows
/// in use can resolve is outside the reliability class. Auditing the tables is C10's statement.
fn table_rel(rt: Rt, m: usize) -> f64 {
    let e = match rt {
        Rt::Gauss => {
            if m <= 8 {
                128.0 // measured 16
            } else {
                2048.0 // measured 390
            }
        }
        Rt::Laguerre => {
            if m <= 4 {
                128.0 // measured 19
            } else if m <= 7 {
                2048.0 // measured 388
            } else if m <= 11 {
                1e5 // measured 16110
            } else {
                1e6 // measured 176261
            }
        }
        Rt::Hermite => {
            if m <= 11 {
                128.0 // measured 21
            } else if m <= 20 {
                8192.0 // measured 1571
            } else if m <= 25 {
                1e5 // measured 16077
            } else {
                1e6 // measured 147799
            }
        }
        Rt::Cheb1 | Rt::Cheb2 => 256.0, // measured 31
        _ => FLOOR_C,
    };
    e.max(FLOOR_C) * EPS
}

/// rows of the library's rule sequences (number of rules n = 1..rows), as documented in DESIGN.md
const ROWS_LEGENDRE: usize = 12;

/// tanh-sinh abscissae: allowed excess over the interval ends, in ulps of the larger end point
const ABSCISSA_SLACK_ULPS_DE: f64 = 2.0;

const BUDGET: u64 = 3_000_000;
/// "deep" use of a rule table (evidence / thresholds): certain stop at a rule index >= this,
/// indexed by `Rt as usize`
const DEEP_RULES: [usize; 8] = [0, 8, 0, 0, 8, 14, 12, 12];

// ------------------------------------------------------------------ value types

trait Val: ComplexField<RealField = f64> + FromPrimitive + Copy {
    fn of(f: &Fun, x: f64) -> Self;
    fn to_c(self) -> C;
    const NAME: &'static str;
}
impl Val for f64 {
    #[inline]
    fn of(f: &Fun, x: f64) -> f64 {
        f.eval_r(x)
    }
    fn to_c(self) -> C {
        C::new(self, 0.0)
    }
    const NAME: &'static str = "f64";
}
impl Val for C {
    #[inline]
    fn of(f: &Fun, x: f64) -> C {
        f.eval_c(x)
    }
    fn to_c(self) -> C {
        self
    }
    const NAME: &'static str = "Complex<f64>";
}

#[derive(Clone, Copy, PartialEq, Eq, Debug)]
enum Rt {
    TanhSinh,
    Gauss,
    Simpson,
    Romberg,
    Laguerre,
    Hermite,
    Cheb1,
    Cheb2,
}

impl Rt {
    const ALL: [Rt; 8] = [Rt::TanhSinh, Rt::Gauss, Rt::Simpson, Rt::Romberg, Rt::Laguerre, Rt::Hermite, Rt::Cheb1, Rt::Cheb2];
    fn name(self) -> &'static str {
        match self {
            Rt::TanhSinh => "tanhsinh",
            Rt::Gauss => "gauss",
            Rt::Simpson => "simpson",
            Rt::Romberg => "romberg",
            Rt::Laguerre => "laguerre",
            Rt::Hermite => "hermite",
            Rt::Cheb1 => "chebyshev",
            Rt::Cheb2 => "chebyshev2",
        }
    }
    fn api(self) -> &'static str {
        match self {
            Rt::TanhSinh => "integrate(left, right, f, tol)",
            Rt::Gauss => "integrate_gaussian(left, right, f, tol)",
            Rt::Simpson => "integrate_simpson(left, right, f, tol, n_max)",
            Rt::Romberg => "integrate_fixed(left, right, f, n)",
            Rt::Laguerre => "integrate_laguerre(f, tol)",
            Rt::Hermite => "integrate_hermite(f, tol)",
            Rt::Cheb1 => "integrate_chebyshev(f, tol)",
            Rt::Cheb2 => "integrate_chebyshev_second(f, tol)",
        }
    }
    fn has_interval(self) -> bool {
        matches!(self, Rt::TanhSinh | Rt::Gauss | Rt::Simpson | Rt::Romberg)
    }
    fn has_tol(self) -> bool {
        self != Rt::Romberg
    }
    fn weight(self) -> Option<Weight> {
        match self {
            Rt::Laguerre => Some(Weight::Laguerre),
            Rt::Hermite => Some(Weight::Hermite),
            Rt::Cheb1 => Some(Weight::Cheb1),
            Rt::Cheb2 => Some(Weight::Cheb2),
            _ => None,
        }
    }
    fn rules(self) -> &'static rules::RuleSeq {
        match self {
            Rt::Gauss => rules::legendre(),
            Rt::Laguerre => rules::laguerre(),
            Rt::Hermite => rules::hermite(),
            Rt::Cheb1 => rules::cheb1(),
            Rt::Cheb2 => rules::cheb2(),
            _ => unreachable!(),
        }
    }
}

// ------------------------------------------------------------------ instrumented library call

#[derive(Clone, Debug)]
struct Obs {
    calls: u64,
    xmin: f64,
    xmax: f64,
    nan_x: bool,
    head: Vec<f64>,
}

impl Obs {
    fn new() -> Obs {
        Obs { calls: 0, xmin: f64::INFINITY, xmax: f64::NEG_INFINITY, nan_x: false, head: vec![] }
    }
    #[inline]
    fn see(&mut self, x: f64) {
        self.calls += 1;
        if x.is_nan() {
            self.nan_x = true;
        }
        if x < self.xmin {
            self.xmin = x;
        }
        if x > self.xmax {
            self.xmax = x;
        }
        if self.head.len() < 8 {
            self.head.push(x);
        }
    }
}

#[derive(Clone, Debug)]
struct Call {
    rt: Rt,
    a: f64,
    b: f64,
    tol: f64,
    /// n_max (Simpson) or number of rows (Romberg)
    n: usize,
}

fn call_lib_t<V: Val>(c: &Call, fun: &Fun) -> (Guarded<Result<C, String>>, Obs) {
    let mut obs = Obs::new();
    probe::begin(BUDGET);
    let g = {
        let o = &mut obs;
        let f = move |x: f64| -> V {
            probe::tick_or_panic();
            o.see(x);
            V::of(fun, x)
        };
        let (a, b, tol, n) = (c.a, c.b, c.tol, c.n);
        let rt = c.rt;
        probe::guard(move || -> Result<V, String> {
            match rt {
                Rt::TanhSinh => integrate::<V, _>(a, b, f, tol),
                Rt::Gauss => integrate_gaussian::<V, _>(a, b, f, tol),
                Rt::Simpson => integrate_simpson::<V, _>(a, b, f, tol, n),
                Rt::Romberg => integrate_fixed::<V, _>(a, b, f, n),
                Rt::Laguerre => integrate_laguerre::<V, _>(f, tol),
                Rt::Hermite => integrate_hermite::<V, _>(f, tol),
                Rt::Cheb1 => integrate_chebyshev::<V, _>(f, tol),
                Rt::Cheb2 => integrate_chebyshev_second::<V, _>(f, tol),
            }
        })
    };
    probe::begin(u64::MAX);
    let g = match g {
        Guarded::Ok(r) => Guarded::Ok(r.map(|v| v.to_c())),
        Guarded::Budget => Guarded::Budget,
        Guarded::Panic(m, l) => Guarded::Panic(m, l),
    };
    (g, obs)
}

fn call_lib(c: &Call, fun: &Fun) -> (Guarded<Result<C, String>>, Obs) {
    if fun.complex {
        call_lib_t::<C>(c, fun)
    } else {
        call_lib_t::<f64>(c, fun)
    }
}

fn case_json(c: &Call, fun: &Fun) -> J {
    let mut j = J::obj().set("routine", c.rt.name()).set("api", c.rt.api()).set("value_type", if fun.complex { C::NAME } else { <f64 as Val>::NAME });
    if c.rt.has_interval() {
        j.put("left", c.a);
        j.put("right", c.b);
    }
    if c.rt.has_tol() {
        j.put("tol", c.tol);
    }
    if c.rt == Rt::Simpson {
        j.put("n_max", c.n);
    }
    if c.rt == Rt::Romberg {
        j.put("n", c.n);
    }
    j.put("integrand", fun.to_json());
    j
}

fn case_hash(c: &Call, fun: &Fun) -> u64 {
    fun.hash_into(CaseHash::new("c09").s(c.rt.name()).f(c.a).f(c.b).f(c.tol).u(c.n as u64)).0
}

fn cj(c: C) -> J {
    J::fs(&[c.re, c.im])
}

// ------------------------------------------------------------------ class predicates

fn lnfact(n: usize) -> f64 {
    (1..=n).map(|i| (i as f64).ln()).sum()
}

/// classical Gauss-Legendre remainder bound on [a,b]:
///   E_n <= (b-a)^{2n+1} (n!)^4 / ((2n+1) ((2n)!)^3) * M_{2n}
fn gauss_remainder_bound(n: usize, len: f64, m2n: f64) -> f64 {
    if m2n == 0.0 {
        return 0.0;
    }
    ((2 * n + 1) as f64 * len.ln() + 4.0 * lnfact(n) - ((2 * n + 1) as f64).ln() - 3.0 * lnfact(2 * n) + m2n.ln()).exp()
}

/// Remainder predicate: some n <= rows-2 with E_n <= tau/8 and E_{m+1} <= E_m/4 from there on
/// (tau = tol/4 is the library's documented agreement threshold in [a,b] units). Then rules
/// n, n+1, n+2 are all within tau/8 of the integral, so a correct two-consecutive-agreement
/// sequence must stop by rule n+2.
fn gauss_remainder_class(fun: &Fun, a: f64, b: f64, tol: f64) -> Option<usize> {
    let len = b - a;
    let tau = 0.25 * tol;
    let e: Vec<f64> = (1..=ROWS_LEGENDRE).map(|n| gauss_remainder_bound(n, len, fun.dbound(2 * n, a, b))).collect();
    for n in 1..=(ROWS_LEGENDRE - 2) {
        if e[n - 1] <= tau / 8.0 && (n..ROWS_LEGENDRE).all(|m| e[m] <= e[m - 1] / 4.0 || e[m] < 1e-300) {
            return Some(n);
        }
    }
    None
}

struct Replay {
    /// first rule index m >= 3 at which two consecutive differences are below 0.75 t: any correct
    /// implementation has stopped by then
    certain: Option<usize>,
    /// every rule at which a correct implementation could stop (both differences below 1.25 t,
    /// including the library's first difference |A_1 - 0|) is accurate to t_acc
    potential_ok: bool,
    worst_potential_err: f64,
}

/// Replay the documented stopping rule (two consecutive differences below the tolerance) on an
/// independent rule sequence. `unit` scales the sums into the units of `exact`.
fn replay(seq: &rules::RuleSeq, f: &dyn Fn(f64) -> C, unit: f64, exact: C, t_stop: f64, t_acc: f64) -> Replay {
    let mut prev_area = C::new(0.0, 0.0);
    let mut prev_d = f64::INFINITY;
    let mut out = Replay { certain: None, potential_ok: true, worst_potential_err: 0.0 };
    for (k, rule) in seq.rules.iter().enumerate() {
        let m = k + 1;
        let mut area = C::new(0.0, 0.0);
        for (x, w) in rule {
            area += f(*x) * *w;
        }
        area *= unit;
        let d = (area - prev_area).norm();
        if m >= 2 && d < 1.25 * t_stop && prev_d < 1.25 * t_stop {
            let e = (area - exact).norm();
            out.worst_potential_err = out.worst_potential_err.max(e);
            if !(e <= t_acc) {
                out.potential_ok = false;
            }
        }
        if m >= 3 && d < 0.75 * t_stop && prev_d < 0.75 * t_stop {
            out.certain = Some(m);
            return out;
        }
        prev_area = area;
        prev_d = d;
    }
    out
}

/// tanh-sinh (double exponential) rule from its definition: trapezoidal sums with step 2^-l in t of
/// f(x(t)) w(t), x = tanh(pi/2 sinh t), w = pi/2 cosh t / cosh^2(pi/2 sinh t), |t| <= 3, l = 0..6.
/// Returns the new nodes (t > 0) of each level as (x, w).
fn de_nodes() -> &'static Vec<Vec<(f64, f64)>> {
    static S: std::sync::OnceLock<Vec<Vec<(f64, f64)>>> = std::sync::OnceLock::new();
    S.get_or_init(|| {
        let hp = std::f64::consts::FRAC_PI_2;
        let xw = |t: f64| {
            let u = hp * t.sinh();
            (u.tanh(), hp * t.cosh() / (u.cosh() * u.cosh()))
        };
        let mut levels = vec![vec![xw(1.0), xw(2.0), xw(3.0)]];
        for l in 1..=6u32 {
            let h = 0.5f64.powi(l as i32);
            let mut v = vec![];
            let mut j = 0;
            loop {
                let t = (2 * j + 1) as f64 * h;
                if t >= 3.0 {
                    break;
                }
                v.push(xw(t));
                j += 1;
            }
            levels.push(v);
        }
        levels
    })
}

struct DeReplay {
    certain: Option<usize>,
    potential_ok: bool,
}

/// Class membership for tanh-sinh, from the property's own description of the stopping heuristic
/// (it accepts at the earliest when the squared difference of two consecutive levels is below the
/// tolerance): the harness's own level sums I_0..I_6 on [-1,1] must (a) contain a level l >= 2
/// whose difference to the previous level is below 0.75 tol (any correct implementation has
/// stopped by then) and (b) be accurate to `t_acc` at every level l >= 2 up to that one whose
/// difference is below sqrt(1.25 tol) (every level at which it could stop).
/// Level sums of the double-exponential rule on the harness's own nodes: per level (difference to the
/// previous estimate, |estimate - exact_core|). The routine's first estimate is pi f(0) (halved at level 0).
fn de_levels(f: &dyn Fn(f64) -> C, exact_core: C) -> Vec<(f64, f64)> {
    let nodes = de_nodes();
    let mut out = vec![];
    let mut integral = f(0.0) * std::f64::consts::FRAC_PI_2;
    for (l, level) in nodes.iter().enumerate() {
        let h = 0.5f64.powi(l as i32);
        let mut s = C::new(0.0, 0.0);
        for (x, w) in level {
            s += (f(*x) + f(-*x)) * *w;
        }
        let new = if l == 0 { integral + s } else { integral * 0.5 + s * h };
        let d = if l == 0 { (integral - s).norm() } else { (new - integral).norm() };
        integral = new;
        out.push((d, (integral - exact_core).norm()));
    }
    out
}

/// The documented stopping rule replayed on the harness's own level sums. From level 2 on the
/// routine stops when the difference d itself is below the tolerance, or when d^2 is and the trend
/// r = ln d_l / ln d_{l-1} lies in (1.9, 2.1) ("convergent region"). A level counts as a POSSIBLE
/// stop with margins on every comparison (1.25 tol, r in [1.85, 2.15], or r numerically undefined):
/// every possible stop must be accurate. A level whose d^2 is below the tolerance with r clearly
/// outside the window is not a stop of the routine: returning there is its error, not the class's.
fn de_replay(f: &dyn Fn(f64) -> C, exact_core: C, tol: f64, t_acc: f64) -> DeReplay {
    let mut out = DeReplay { certain: None, potential_ok: true };
    let lv = de_levels(f, exact_core);
    for l in 2..lv.len() {
        let (d, err) = lv[l];
        let dp = lv[l - 1].0;
        let r = d.ln() / dp.ln();
        let r_unreliable = !(r.is_finite()) || dp.ln().abs() < 1e-6 || dp == 0.0;
        let in_window = r_unreliable || (r >= 1.85 && r <= 2.15);
        let possible = d < 1.25 * tol || (in_window && d * d < 1.25 * tol);
        if possible && !(err <= t_acc) {
            out.potential_ok = false;
        }
        if d < 0.75 * tol {
            out.certain = Some(l);
            return out;
        }
    }
    out
}
fn de_first_differences(f: &dyn Fn(f64) -> C) -> (f64, f64) {
    let nodes = de_nodes();
    let mut integral = f(0.0) * std::f64::consts::FRAC_PI_2;
    let mut d = [0.0f64; 2];
    for (l, level) in nodes.iter().enumerate().take(2) {
        let h = 0.5f64.powi(l as i32);
        let mut s = C::new(0.0, 0.0);
        for (x, w) in level {
            s += (f(*x) + f(-*x)) * *w;
        }
        let new = if l == 0 { integral + s } else { integral * 0.5 + s * h };
        // the routine under test starts from the one-point value pi f(0) and halves it at every
        // level, so its first difference is |pi/2 f(0) - (level-0 sum)|, not |level-0 sum|
        d[l] = if l == 0 { (integral - s).norm() } else { (new - integral).norm() };
        integral = new;
    }
    (d[0], d[1])
}

// ------------------------------------------------------------------ textbook adaptive Simpson (work reference)

struct BfOut {
    value: Option<C>,
    evals: u64,
    max_level: usize,
}

/// Burden & Faires, Numerical Analysis, Algorithm 4.3 (adaptive quadrature), written with an
/// explicit stack of panel records: TOL_1 = 10 TOL, halved per level; a panel is accepted when
/// |S1 + S2 - S| < TOL_i.
fn burden_faires(f: &dyn Fn(f64) -> C, a: f64, b: f64, tol: f64, n_max: usize, cap: u64) -> BfOut {
    struct P {
        a: f64,
        h: f64,
        fa: C,
        fc: C,
        fb: C,
        tol: f64,
        s: C,
        level: usize,
    }
    let h = (b - a) / 2.0;
    let (fa, fc, fb) = (f(a), f(a + h), f(b));
    let mut evals = 3u64;
    let mut max_level = 1;
    let mut app = C::new(0.0, 0.0);
    let mut stack = vec![P { a, h, fa, fc, fb, tol: 10.0 * tol, s: (fa + fc * 4.0 + fb) * (h / 3.0), level: 1 }];
    while let Some(p) = stack.pop() {
        let fd = f(p.a + p.h / 2.0);
        let fe = f(p.a + 3.0 * p.h / 2.0);
        evals += 2;
        max_level = max_level.max(p.level);
        let s1 = (p.fa + fd * 4.0 + p.fc) * (p.h / 6.0);
        let s2 = (p.fc + fe * 4.0 + p.fb) * (p.h / 6.0);
        if (s1 + s2 - p.s).norm() < p.tol {
            app += s1 + s2;
        } else {
            if p.level >= n_max || evals > cap {
                return BfOut { value: None, evals, max_level };
            }
            stack.push(P { a: p.a + p.h, h: p.h / 2.0, fa: p.fc, fc: fe, fb: p.fb, tol: p.tol / 2.0, s: s2, level: p.level + 1 });
            stack.push(P { a: p.a, h: p.h / 2.0, fa: p.fa, fc: fd, fb: p.fc, tol: p.tol / 2.0, s: s1, level: p.level + 1 });
        }
    }
    BfOut { value: Some(app), evals, max_level }
}

/// Depth (0 = whole interval) at which every panel of a polynomial of degree <= 5 is accepted: on a
/// panel of width W, |S2 - S1| = W^5 |f''''(mid)| / 3072 exactly, accepted when < 10 tol / 2^L with
/// W = len / 2^L, i.e. 2^{4L} > len^5 M4 / (30720 tol). Panels that are split are at depth < L,
/// i.e. at the routine's level <= L, so n_max = L + 1 suffices. None when the quotient is within
/// 2 % (in the exponent) of a power of 16, where rounding could decide the deepest level.
fn simpson_depth(len: f64, m4: f64, tol: f64) -> Option<usize> {
    let q = len.powi(5) * m4 / (30720.0 * tol);
    if !(q > 0.0) {
        return Some(0);
    }
    let e = q.log2() / 4.0;
    if e < -0.02 {
        return Some(0);
    }
    let fr = e - e.floor();
    if !(0.02..=0.98).contains(&fr) {
        return None;
    }
    Some(e.ceil().max(0.0) as usize)
}

// ------------------------------------------------------------------ generators

fn gen_interval(rng: &mut Rng) -> (f64, f64) {
    let len = rng.r(0.05, 4.0);
    let a = rng.r(-5.0, 5.0 - len);
    let b = (a + len).min(5.0);
    (a, b)
}

fn gen_tol(rng: &mut Rng) -> f64 {
    rng.log10(-11.0, -3.0)
}

fn rc(rng: &mut Rng, complex: bool) -> C {
    if complex {
        C::new(rng.r(-1.0, 1.0), rng.r(-1.0, 1.0))
    } else {
        C::new(rng.r(-1.0, 1.0), 0.0)
    }
}

fn centred_poly(rng: &mut Rng, fun: &mut Fun, a: f64, b: f64, deg: usize) {
    let len = b - a;
    fun.x0 = 0.5 * (a + b) + rng.r(-0.25, 0.25) * len;
    fun.s = rng.r(0.6, 1.0) * len;
    let complex = fun.complex;
    fun.poly = (0..=deg).map(|_| rc(rng, complex)).collect();
    // make sure the leading coefficient is not negligible
    if let Some(l) = fun.poly.last_mut() {
        if l.norm() < 0.2 {
            *l = C::new(0.5, if complex { -0.4 } else { 0.0 });
        }
    }
}

fn monomial_poly(rng: &mut Rng, fun: &mut Fun, deg: usize) {
    fun.x0 = 0.0;
    fun.s = 1.0;
    let complex = fun.complex;
    fun.poly = (0..=deg).map(|i| rc(rng, complex) * 0.5f64.powi(i as i32)).collect();
    if let Some(l) = fun.poly.last_mut() {
        if l.norm() < 0.2 * 0.5f64.powi(deg as i32) {
            *l = C::new(0.5 * 0.5f64.powi(deg as i32), 0.0);
        }
    }
}

fn add_exp(rng: &mut Rng, fun: &mut Fun, mid: f64, kmax: f64) {
    let rate = if fun.complex { C::new(rng.r(-1.0, 1.0), rng.sign() * rng.r(0.3, 3.0)) } else { C::new(rng.sign() * rng.r(0.2, kmax), 0.0) };
    // amplitude O(1) at the centre of the interval
    let amp = rc(rng, fun.complex) * (-rate.re * mid).exp();
    fun.exps.push((amp, rate));
}

fn add_sin(rng: &mut Rng, fun: &mut Fun) {
    fun.sins.push((rng.r(-1.0, 1.0), rng.r(0.3, 3.0), rng.r(0.0, std::f64::consts::TAU)));
}

/// G-quad on a finite interval. `kinds`: which members may be drawn.
#[derive(Clone, Copy, PartialEq)]
enum Mix {
    /// everything (mixtures, centred polynomials up to maxdeg, low-degree monomial polynomials, single terms)
    All,
    /// transcendental members only
    Smooth,
}

/// Complex members whose real part is poor (a polynomial of degree <= 1, possibly zero) and whose
/// imaginary part carries everything else: a stopping test that looks at one part only settles on
/// the real part long before the imaginary part has converged. (The generic complex members have
/// coefficients with both parts of similar size, so both parts converge together.)
fn make_imaginary_rich(rng: &mut Rng, fun: &mut Fun) {
    let zero_real = rng.bool();
    for (k, c) in fun.poly.iter_mut().enumerate() {
        if k >= 2 || zero_real {
            *c = C::new(0.0, c.re + c.im);
        }
    }
    for (c, r) in fun.exps.iter_mut() {
        *c = C::new(0.0, c.norm());
        *r = C::new(r.re, 0.0);
    }
    fun.sins.clear();
    for c in fun.cheb.iter_mut().skip(if zero_real { 0 } else { 2 }) {
        *c = C::new(0.0, c.re + c.im);
    }
    // a third of those that keep a real part: the real constant dominates (100 ... 10 000 times the rest), so
    // that the modulus of a rule value hardly moves while its imaginary part is still far from converged -
    // convergence is a matter of the difference of successive values, not of the difference of their moduli
    if !zero_real && !fun.poly.is_empty() && rng.chance(0.33) {
        let big = rng.sign() * rng.log10(2.0, 4.0);
        fun.poly[0] = C::new(big, fun.poly[0].im);
    }
}

fn gen_fun_interval(rng: &mut Rng, complex: bool, a: f64, b: f64, mix: Mix, maxdeg: usize) -> Fun {
    let mut fun = gen_fun_interval_generic(rng, complex, a, b, mix, maxdeg);
    if complex && rng.chance(0.15) {
        make_imaginary_rich(rng, &mut fun);
    }
    fun
}

fn gen_fun_interval_generic(rng: &mut Rng, complex: bool, a: f64, b: f64, mix: Mix, maxdeg: usize) -> Fun {
    let mut fun = Fun::zero(complex);
    let mid = 0.5 * (a + b);
    let u = rng.f();
    let kind = match mix {
        Mix::All => {
            if u < 0.4 {
                0
            } else if u < 0.7 {
                1
            } else if u < 0.8 {
                2
            } else {
                3
            }
        }
        Mix::Smooth => {
            if u < 0.7 {
                0
            } else {
                3
            }
        }
    };
    match kind {
        0 => {
            let deg = rng.below(5);
            monomial_poly(rng, &mut fun, deg);
            let ne = rng.below(3);
            let ns = rng.below(3);
            for _ in 0..ne {
                add_exp(rng, &mut fun, mid, 2.0);
            }
            for _ in 0..ns {
                add_sin(rng, &mut fun);
            }
            if ne + ns == 0 {
                add_exp(rng, &mut fun, mid, 1.0);
            }
        }
        1 => {
            let deg = rng.below(maxdeg + 1);
            centred_poly(rng, &mut fun, a, b, deg);
        }
        2 => {
            let deg = rng.below(6.min(maxdeg + 1));
            monomial_poly(rng, &mut fun, deg);
        }
        _ => {
            if rng.bool() {
                add_exp(rng, &mut fun, mid, 3.0);
            } else if complex {
                // e^{i w x}
                fun.exps.push((rc(rng, true), C::new(0.0, rng.sign() * rng.r(0.3, 3.0))));
            } else {
                add_sin(rng, &mut fun);
            }
        }
    }
    fun
}

fn gen_fun_weighted(rng: &mut Rng, complex: bool, w: Weight) -> Fun {
    let mut fun = gen_fun_weighted_generic(rng, complex, w);
    if complex && rng.chance(0.15) {
        make_imaginary_rich(rng, &mut fun);
    }
    fun
}

fn gen_fun_weighted_generic(rng: &mut Rng, complex: bool, w: Weight) -> Fun {
    let mut fun = Fun::zero(complex);
    let (dmax, kr, wr): (usize, (f64, f64), (f64, f64)) = match w {
        Weight::Laguerre => (19, (-1.0, 0.4), (0.05, 1.5)),
        Weight::Hermite => (49, (-2.5, 2.5), (0.1, 4.0)),
        Weight::Cheb1 | Weight::Cheb2 => (60, (-6.0, 6.0), (0.1, 8.0)),
    };
    if matches!(w, Weight::Cheb1 | Weight::Cheb2) && rng.chance(0.3) {
        // dense expansion in the weight's own orthogonal basis, degree up to (and slightly beyond)
        // 195 = the highest degree the last three of the 100 tabulated rules integrate exactly:
        // the n-point rule is wrong by O(1) until 2n exceeds the degree, so the routine must walk
        // to rule floor(deg/2)+3
        let top = rng.chance(0.4);
        let deg = if top { 186 + rng.below(12) } else { rng.below(186) };
        let rho = if rng.bool() { 1.0 } else { rng.r(0.97, 1.0) };
        fun.cheb_kind = if w == Weight::Cheb1 { 1 } else { 2 };
        fun.cheb = (0..=deg).map(|k| rc(rng, complex) * rho.powi(k as i32)).collect();
        if let Some(l) = fun.cheb.last_mut() {
            if l.norm() < 0.2 {
                *l = C::new(0.5, if complex { -0.4 } else { 0.0 });
            }
        }
        return fun;
    }
    let u = rng.f();
    let kind = if u < 0.4 {
        0
    } else if u < 0.8 {
        1
    } else {
        2
    };
    let deg = match kind {
        0 => rng.below(dmax + 1),
        1 => rng.below(7),
        _ => 0,
    };
    let (_, am) = fam::moments(w, deg);
    fun.poly = (0..=deg).map(|i| rc(rng, complex) / am[i]).collect();
    if kind == 2 {
        fun.poly.clear();
    }
    if kind >= 1 {
        let nt = if kind == 2 { 1 } else { 1 + rng.below(2) };
        for _ in 0..nt {
            let amp = if kind == 2 && rng.chance(0.3) { 1.0 } else { rng.log10(-5.0, 0.0) };
            if rng.bool() {
                let rate = if complex { C::new(rng.r(kr.0, kr.1) * 0.5, rng.sign() * rng.r(wr.0, wr.1)) } else { C::new(rng.r(kr.0, kr.1), 0.0) };
                fun.exps.push((rc(rng, complex) * amp, rate));
            } else {
                fun.sins.push((rng.r(-1.0, 1.0) * amp, rng.r(wr.0, wr.1), rng.r(0.0, std::f64::consts::TAU)));
            }
        }
    }
    // overall size: the tabulated Laguerre/Hermite rows resolve only ~1e-10 of the integrand's
    // magnitude, so small integrands are what populates the tight-tolerance part of the class
    if rng.bool() {
        let g = rng.log10(-3.0, 0.0);
        for c in fun.poly.iter_mut() {
            *c *= g;
        }
        for e in fun.exps.iter_mut() {
            e.0 *= g;
        }
        for t in fun.sins.iter_mut() {
            t.0 *= g;
        }
    }
    fun
}

// ------------------------------------------------------------------ shared monitors

/// Abscissa containment. Returns false (after recording the violation) when it fails.
fn check_abscissae(rep: &mut Report, c: &Call, fun: &Fun, obs: &Obs) -> bool {
    let name = c.rt.name();
    if obs.calls == 0 {
        return true;
    }
    let (lo, hi, strict) = match c.rt {
        Rt::TanhSinh | Rt::Gauss | Rt::Simpson | Rt::Romberg => (c.a, c.b, false),
        Rt::Laguerre => (0.0, f64::INFINITY, false),
        Rt::Hermite => (f64::NEG_INFINITY, f64::INFINITY, false),
        Rt::Cheb1 | Rt::Cheb2 => (-1.0, 1.0, true),
    };
    // tanh-sinh maps nodes as close as 4e-14 to +-1 through scale*x+shift: the rounding of that
    // expression (<= 1.5 ulp of the larger end point) is allowed for; everything else is exact
    let ulp = EPS * c.a.abs().max(c.b.abs()).max(f64::MIN_POSITIVE);
    let slack = if c.rt == Rt::TanhSinh { ABSCISSA_SLACK_ULPS_DE * ulp } else { 0.0 };
    let bad = obs.nan_x || obs.xmin < lo - slack || obs.xmax > hi + slack || (strict && (obs.xmin <= lo || obs.xmax >= hi)) || (c.rt == Rt::Hermite && (obs.xmin.is_infinite() || obs.xmax.is_infinite()));
    if c.rt.has_interval() {
        rep.max(&format!("{}/abscissa_excess_ulps(negative = inside)", name), ((obs.xmax - hi) / ulp).max((lo - obs.xmin) / ulp).max(-1e3));
    }
    if bad {
        rep.violation(
            &format!("{}/abscissa-outside", name),
            case_json(c, fun).set("min_abscissa", obs.xmin).set("max_abscissa", obs.xmax).set("calls", obs.calls),
            format!("integrand was evaluated at abscissae in [{:.17e}, {:.17e}] (NaN seen: {}), integration domain is [{:.17e}, {:.17e}]", obs.xmin, obs.xmax, obs.nan_x, lo, hi),
        );
        return false;
    }
    true
}

struct Verdict {
    /// whether Ok and the accuracy bound are required
    in_class: bool,
    /// allowed |result - exact|
    bound: f64,
    /// what the ratio is measured against (tol, or sqrt band: still tol, evidence only)
    ratio_name: &'static str,
}

/// Common handling of a valid-input execution: panic / budget / Err / accuracy.
/// Returns Some(error) when the library returned Ok.
fn judge(rep: &mut Report, c: &Call, fun: &Fun, g: &Guarded<Result<C, String>>, obs: &Obs, exact: C, v: &Verdict, extra: &dyn Fn(J) -> J) -> Option<f64> {
    let name = c.rt.name();
    let cjson = |res: J| extra(case_json(c, fun).set("exact_integral", cj(exact)).set("observed", res).set("integrand_calls", obs.calls).set("in_reliability_class", v.in_class).set("allowed_error", v.bound));
    match g {
        Guarded::Panic(m, l) => {
            rep.violation(&format!("{}/panic", name), cjson(J::from(format!("panic: {}", m))), format!("{} panicked on a valid call: '{}' at {}", c.rt.api(), m, l));
            None
        }
        Guarded::Budget => {
            rep.violation(&format!("{}/evaluation-budget", name), cjson(J::from("budget exhausted")), format!("{} did not return within {} integrand evaluations", c.rt.api(), BUDGET));
            None
        }
        Guarded::Ok(Err(e)) => {
            if v.in_class {
                rep.violation(&format!("{}/err-in-class", name), cjson(J::from(format!("Err({})", e))), format!("{} returned Err(\"{}\") after {} evaluations for an integrand inside its reliability class (exact integral {:e}{:+e}i)", c.rt.api(), e, obs.calls, exact.re, exact.im));
            } else {
                rep.count(&format!("{}/out_of_class_err", name), 1);
            }
            None
        }
        Guarded::Ok(Ok(val)) => {
            let err = (*val - exact).norm();
            if v.in_class {
                rep.count(&format!("{}/in_class_ok", name), 1);
                let scale = if c.rt.has_tol() { c.tol } else { v.bound };
                rep.max(&format!("{}/{}", name, v.ratio_name), err / scale);
                rep.max(&format!("{}/err_over_allowed", name), err / v.bound);
                if !(err <= v.bound) {
                    rep.violation(
                        &format!("{}/inaccurate", name),
                        cjson(cj(*val)),
                        format!("{} returned Ok({:e}{:+e}i), exact integral {:e}{:+e}i: error {:e} exceeds the allowed {:e} ({} evaluations)", c.rt.api(), val.re, val.im, exact.re, exact.im, err, v.bound, obs.calls),
                    );
                }
            } else {
                rep.count(&format!("{}/out_of_class_ok", name), 1);
                if c.rt.has_tol() {
                    rep.max(&format!("{}/out_of_class_err_over_tol(evidence only)", name), err / c.tol);
                    if err > v.bound {
                        rep.count(&format!("{}/out_of_class_ok_with_error_above_the_in_class_bound(evidence only)", name), 1);
                    }
                }
            }
            Some(err)
        }
    }
}

fn note_case(rep: &mut Report, c: &Call, fun: &Fun, obs: &Obs, in_class: bool, nontrivial: bool, summary: &dyn Fn(J) -> J) {
    let name = c.rt.name();
    rep.eval();
    rep.count(&format!("{}/cases", name), 1);
    if fun.complex {
        rep.count(&format!("{}/complex_cases", name), 1);
    }
    rep.max(&format!("{}/max_calls", name), obs.calls as f64);
    if in_class {
        rep.count(&format!("{}/in_class", name), 1);
    } else {
        rep.count(&format!("{}/out_of_class", name), 1);
    }
    if in_class && nontrivial {
        rep.count(&format!("{}/nontrivial", name), 1);
        rep.nontrivial(case_hash(c, fun));
        if rep.wants_sample() {
            rep.sample(summary(case_json(c, fun).set("integrand_calls", obs.calls).set("first_abscissae", J::fs(&obs.head)).set("min_abscissa", obs.xmin).set("max_abscissa", obs.xmax)));
        }
    }
}

// ------------------------------------------------------------------ per-routine cases

fn run_tanhsinh(rep: &mut Report, fun: &Fun, a: f64, b: f64, tol: f64) {
    let c = Call { rt: Rt::TanhSinh, a, b, tol, n: 0 };
    let (exact, mag) = fun.integral(a, b);
    let len = b - a;
    let floor = FLOOR_C * EPS * mag * len;
    // the routine works on [-1,1] with the caller's tolerance un-scaled: core values have magnitude mag * 2
    let floor_core = FLOOR_C * EPS * mag * 2.0;
    let sigma_core = fun.sigma() * 0.5 * len;
    let family = sigma_core <= DE_SIGMA_CORE_MAX && fun.degree() <= DE_DEG_MAX;
    let rounding_ok = floor_core <= tol / CLASS_FLOOR_DIV;
    let (scale, shift) = (0.5 * len, 0.5 * (a + b));
    let fc = |t: f64| fun.eval_c(scale * t + shift);
    let rp = de_replay(&fc, exact / scale, tol, 0.5 * tol / scale.max(1.0));
    let in_class = family && rounding_ok && tol >= 1e-11 && rp.certain.is_some() && rp.potential_ok;
    if family && !rounding_ok {
        rep.count("tanhsinh/rounding_limited(out of class)", 1);
    } else if family && rp.certain.is_none() {
        rep.count("tanhsinh/own_level_sums_do_not_settle(out of class)", 1);
    } else if family && !rp.potential_ok {
        rep.count("tanhsinh/level_with_squared_difference_below_tol_is_inaccurate(out of class)", 1);
    }
    let proportional = tol >= DE_TOL_PROPORTIONAL_FROM;
    let bound = if proportional { K_DE * tol + floor } else { K_DE_SQRT * tol.sqrt() + floor };
    let (g, obs) = call_lib(&c, fun);
    check_abscissae(rep, &c, fun, &obs);
    let v = Verdict { in_class, bound, ratio_name: if proportional { "err_over_tol(tol>=1e-8)" } else { "err_over_tol(tol<1e-8, bound is 8*sqrt(tol))" } };
    let err = judge(rep, &c, fun, &g, &obs, exact, &v, &|j| j);
    if in_class {
        rep.count(if proportional { "tanhsinh/in_class_proportional_band" } else { "tanhsinh/in_class_sqrt_band" }, 1);
    }
    // levels used: 1 + 6 + 6 + 12 + 24 + ... evaluations
    let nontrivial = obs.calls >= 13;
    note_case(rep, &c, fun, &obs, in_class, nontrivial, &|j| j.set("exact_integral", cj(exact)).set("error", err.unwrap_or(f64::NAN)).set("allowed_error", bound));
}

fn run_gauss(rep: &mut Report, fun: &Fun, a: f64, b: f64, tol: f64) {
    let c = Call { rt: Rt::Gauss, a, b, tol, n: 0 };
    let (exact, mag) = fun.integral(a, b);
    let len = b - a;
    let tau = 0.25 * tol;
    let rem = gauss_remainder_class(fun, a, b, tol);
    // independent sequence: no rule at which a correct implementation could stop is inaccurate
    let (scale, shift) = (0.5 * len, 0.5 * (a + b));
    let f = |t: f64| fun.eval_c(scale * t + shift);
    let rp = replay(Rt::Gauss.rules(), &f, scale, exact, tau, 0.5 * tol);
    let floor = table_rel(Rt::Gauss, rp.certain.unwrap_or(ROWS_LEGENDRE)) * mag * len;
    let rounding_ok = floor <= tau / CLASS_FLOOR_DIV;
    let in_class = rounding_ok && rem.is_some() && rp.certain.is_some() && rp.potential_ok;
    if rem.is_some() && !rounding_ok {
        rep.count("gauss/rounding_limited(out of class)", 1);
    }
    if rem.is_some() && rounding_ok && !(rp.certain.is_some() && rp.potential_ok) {
        rep.count("gauss/remainder_class_but_spurious_agreement_possible(out of class)", 1);
    }
    if rem.is_none() {
        rep.count("gauss/outside_remainder_class", 1);
    }
    let bound = K_GAUSS * tol + floor;
    rep.max("gauss/harness_rule_sequence_moment_defect(validation)", Rt::Gauss.rules().worst_defect);
    let (g, obs) = call_lib(&c, fun);
    check_abscissae(rep, &c, fun, &obs);
    let v = Verdict { in_class, bound, ratio_name: "err_over_tol" };
    let err = judge(rep, &c, fun, &g, &obs, exact, &v, &|j| j.set("remainder_class_rule", rem.map(|n| n as i64).unwrap_or(-1)));
    if in_class {
        let m = rp.certain.unwrap();
        rep.max("gauss/rules_needed(independent replay)", m as f64);
        if m >= DEEP_RULES[Rt::Gauss as usize] {
            rep.count(&format!("gauss/in_class_deep(certain stop at rule >= {})", DEEP_RULES[Rt::Gauss as usize]), 1);
        }
        if tol < 1e-8 {
            rep.count("gauss/in_class_tol_below_1e-8", 1);
        }
    }
    let nontrivial = obs.calls >= 6;
    note_case(rep, &c, fun, &obs, in_class, nontrivial, &|j| j.set("exact_integral", cj(exact)).set("error", err.unwrap_or(f64::NAN)).set("allowed_error", bound).set("remainder_bound_first_rule_within_tol_over_32", rem.map(|n| n as i64).unwrap_or(-1)));
}

fn run_weighted(rep: &mut Report, rt: Rt, fun: &Fun, tol: f64) {
    let w = rt.weight().unwrap();
    let c = Call { rt, a: 0.0, b: 0.0, tol, n: 0 };
    let (exact, mag) = fun.weighted_integral(w);
    let f = |x: f64| fun.eval_c(x);
    let rp = replay(rt.rules(), &f, 1.0, exact, tol, 0.5 * tol);
    let floor = table_rel(rt, rp.certain.unwrap_or(usize::MAX)) * mag;
    let rounding_ok = floor <= tol / CLASS_FLOOR_DIV;
    let in_class = rounding_ok && rp.certain.is_some() && rp.potential_ok;
    let name = rt.name();
    if !rounding_ok {
        rep.count(&format!("{}/rounding_limited(out of class)", name), 1);
    } else if rp.certain.is_none() {
        rep.count(&format!("{}/independent_sequence_does_not_stop(out of class)", name), 1);
    } else if !rp.potential_ok {
        rep.count(&format!("{}/spurious_agreement_possible(out of class)", name), 1);
    }
    let bound = K_GAUSS * tol + floor;
    rep.max(&format!("{}/harness_rule_sequence_moment_defect(validation)", name), rt.rules().worst_defect);
    let (g, obs) = call_lib(&c, fun);
    check_abscissae(rep, &c, fun, &obs);
    let v = Verdict { in_class, bound, ratio_name: "err_over_tol" };
    let err = judge(rep, &c, fun, &g, &obs, exact, &v, &|j| j.set("independent_sequence_certain_stop", rp.certain.map(|n| n as i64).unwrap_or(-1)));
    if in_class {
        let m = rp.certain.unwrap();
        rep.max(&format!("{}/rules_needed(independent replay)", name), m as f64);
        if m >= DEEP_RULES[rt as usize] {
            rep.count(&format!("{}/in_class_deep(certain stop at rule >= {})", name, DEEP_RULES[rt as usize]), 1);
        }
        if tol < 1e-8 {
            rep.count(&format!("{}/in_class_tol_below_1e-8", name), 1);
        }
        if m >= 98 {
            rep.count(&format!("{}/in_class_certain_stop_at_rule_98_to_100", name), 1);
        }
        if m == 100 {
            rep.count(&format!("{}/in_class_certain_stop_at_last_rule", name), 1);
        }
    }
    let nontrivial = obs.calls >= 6;
    note_case(rep, &c, fun, &obs, in_class, nontrivial, &|j| j.set("exact_integral", cj(exact)).set("error", err.unwrap_or(f64::NAN)).set("allowed_error", bound).set("independent_sequence_certain_stop", rp.certain.map(|n| n as i64).unwrap_or(-1)));
}

fn run_simpson(rep: &mut Report, fun: &Fun, a: f64, b: f64, tol: f64, tight_nmax: Option<usize>) {
    run_simpson_depth(rep, fun, a, b, tol, tight_nmax.map(|e| e as i64))
}

/// `tight_nmax`: Some(e >= 0): n_max = (depth at which every panel is accepted) + 1 + e, sufficient;
/// Some(e < 0): n_max = that depth + 1 + e (at least 1), possibly insufficient - then Err is a correct
/// answer, and an Ok answer is held to the same accuracy bound as any other
fn run_simpson_depth(rep: &mut Report, fun: &Fun, a: f64, b: f64, tol: f64, tight_nmax: Option<i64>) {
    let (exact, mag) = fun.integral(a, b);
    let len = b - a;
    let floor = FLOOR_C * EPS * mag * len;
    let poly5 = fun.is_polynomial() && fun.degree() <= 5;
    let rounding_ok = floor <= tol / CLASS_FLOOR_DIV;
    let depth = if poly5 { simpson_depth(len, fun.dbound(4, a, b), tol) } else { None };
    let lreq = depth.map(|d| d as i64).unwrap_or(-1);
    let n_max = match (depth, tight_nmax) {
        (Some(d), Some(extra)) => (d as i64 + 1 + extra).max(1) as usize,
        // no tight limit: 60, or (every eighth case, decided by the data) an astronomically large
        // limit - the depth limit is a bound, not an amount of work or memory to provide for
        _ => {
            if (a.to_bits() >> 9) % 8 == 0 {
                rep.count("simpson/cases_with_an_astronomical_depth_limit", 1);
                // (usize::MAX: an implementation that pre-allocates for it panics with a capacity overflow, which
                // the harness can catch; merely huge values would abort the process on allocation failure)
                usize::MAX
            } else {
                60
            }
        }
    };
    let possibly_insufficient = matches!((depth, tight_nmax), (Some(_), Some(e)) if e < 0);
    let c = Call { rt: Rt::Simpson, a, b, tol, n: n_max };
    let in_class = poly5 && rounding_ok;
    if poly5 && !rounding_ok {
        rep.count("simpson/rounding_limited(out of class)", 1);
    }
    let bound = K_SIMPSON * tol + floor;
    let (g, obs) = call_lib(&c, fun);
    check_abscissae(rep, &c, fun, &obs);
    if possibly_insufficient && in_class {
        rep.count("simpson/in_class_cases_with_possibly_insufficient_n_max", 1);
        if let Guarded::Ok(Err(_)) = &g {
            rep.count("simpson/err_returned_with_insufficient_n_max", 1);
            return;
        }
    }
    let v = Verdict { in_class, bound, ratio_name: "err_over_tol(degree<=5)" };
    let err = judge(rep, &c, fun, &g, &obs, exact, &v, &|j| j.set("depth_at_which_every_panel_is_accepted", lreq));
    if in_class && n_max < 60 && tight_nmax.is_some() {
        rep.count("simpson/in_class_tight_n_max", 1);
    }
    // work bound (smooth family and polynomials alike): textbook scheme on the same integrand
    let mut work_checked = false;
    let mut n_ref = 0u64;
    if let Guarded::Ok(Ok(_)) = &g {
        let f = |x: f64| if fun.complex { fun.eval_c(x) } else { C::new(fun.eval_r(x), 0.0) };
        let r = burden_faires(&f, a, b, tol, 60, BUDGET);
        n_ref = r.evals;
        if r.value.is_some() && rounding_ok {
            work_checked = true;
            rep.count("simpson/work_compared", 1);
            if r.evals >= 101 {
                rep.count("simpson/work_compared_with_50_or_more_panels", 1);
            }
            rep.max("simpson/calls_over_textbook_calls", obs.calls as f64 / r.evals as f64);
            rep.min("simpson/calls_over_textbook_calls", obs.calls as f64 / r.evals as f64);
            rep.max("simpson/max_textbook_depth", r.max_level as f64);
            if obs.calls > WORK_MUL * r.evals + WORK_ADD {
                rep.violation(
                    "simpson/work",
                    case_json(&c, fun).set("integrand_calls", obs.calls).set("textbook_calls", r.evals).set("textbook_depth", r.max_level),
                    format!("integrate_simpson spent {} integrand evaluations; the textbook adaptive Simpson scheme (Burden-Faires Alg. 4.3, same 10*tol allowance and halving) needs {} on the same integrand; allowed {}*N+{}", obs.calls, r.evals, WORK_MUL, WORK_ADD),
                );
            }
        } else {
            rep.count("simpson/work_not_compared(reference failed or rounding-limited)", 1);
        }
    }
    if !poly5 {
        if let (Some(e), true) = (err, rounding_ok) {
            rep.max("simpson/err_over_tol(smooth family, evidence only)", e / tol);
        }
    }
    let nontrivial = obs.calls > 5;
    let note_in_class = in_class || (work_checked && !poly5);
    note_case(rep, &c, fun, &obs, note_in_class, nontrivial, &|j| j.set("exact_integral", cj(exact)).set("error", err.unwrap_or(f64::NAN)).set("textbook_calls", n_ref).set("hard_accuracy_bound_applies", in_class));
}

/// Polynomials for which two successive entries of the first Romberg column (composite trapezoid
/// sums with m and 2m panels) are EXACTLY equal although nothing has converged: on [-1,1] with small
/// dyadic coefficients every sample and every sum is exact in f64, and T_2m = T_m iff the midpoint
/// sum M_m equals T_m, which one coefficient (that of x^2) can enforce exactly because
/// T_m(x^2) - M_m(x^2) = 2/m^2 is dyadic. Exactness for degree <= 2n-1 does not care; an
/// implementation that treats a vanishing Richardson correction as convergence does.
fn case_romberg_equal_entries(rng: &mut Rng, rep: &mut Report) {
    let m = 1usize << rng.below(3); // 1, 2 or 4 panels
    let n_min = (2 * m).trailing_zeros() as usize + 2; // rows needed so that T_2m is in the table and one more
    let n = n_min + rng.below(3);
    let deg = (2 * n - 1).min(4 + 2 * rng.below(3)).max(3);
    let complex = rng.chance(0.3);
    let mut fun = Fun::zero(complex);
    // small dyadic coefficients (k/8), x^2 coefficient fixed below
    let mut c: Vec<f64> = (0..=deg).map(|_| rng.int(-16, 16) as f64 / 8.0).collect();
    if c[deg] == 0.0 {
        c[deg] = 1.0;
    }
    c[2] = 0.0;
    let eval = |c: &[f64], x: f64| c.iter().rev().fold(0.0, |acc, ck| acc * x + ck);
    let h = 2.0 / m as f64;
    let trap = |c: &[f64]| -> f64 {
        let mut s = 0.5 * (eval(c, -1.0) + eval(c, 1.0));
        for k in 1..m {
            s += eval(c, -1.0 + h * k as f64);
        }
        s * h
    };
    let mid = |c: &[f64]| -> f64 { (0..m).map(|k| eval(c, -1.0 + h * (k as f64 + 0.5))).sum::<f64>() * h };
    let mut q = vec![0.0; deg + 1];
    q[2] = 1.0;
    let dq = trap(&q) - mid(&q);
    c[2] = -(trap(&c) - mid(&c)) / dq;
    let equal = trap(&c) == mid(&c);
    rep.count("romberg/equal_entry_cases", 1);
    if equal && c.iter().any(|v| *v != 0.0) {
        rep.count(&format!("romberg/equal_entry_cases_with_T{}_equal_T{}", m, 2 * m), 1);
    }
    fun.poly = c.iter().map(|v| if complex { C::new(*v, -0.5 * *v) } else { C::new(*v, 0.0) }).collect();
    run_romberg(rep, &fun, -1.0, 1.0, n);
}

fn run_romberg(rep: &mut Report, fun: &Fun, a: f64, b: f64, n: usize) {
    let c = Call { rt: Rt::Romberg, a, b, tol: 0.0, n };
    let (exact, mag) = fun.integral(a, b);
    let len = b - a;
    let in_class = fun.is_polynomial() && fun.degree() <= 2 * n - 1;
    // beyond 12 rows the composite trapezoid sums of 2^(n-1)+1 terms dominate the rounding error:
    // allow the worst case of a plain running sum on top of the extrapolation term
    let sum_terms = if n > 12 { (1u64 << (n - 1)) as f64 } else { 0.0 };
    let bound = (K_ROMBERG * n as f64 + sum_terms) * EPS * mag * len;
    let (g, obs) = call_lib(&c, fun);
    check_abscissae(rep, &c, fun, &obs);
    let v = Verdict { in_class, bound, ratio_name: "err_over_allowed" };
    let err = judge(rep, &c, fun, &g, &obs, exact, &v, &|j| j.set("degree", fun.degree()));
    if let (Some(e), true) = (err, in_class) {
        rep.max("romberg/err_over_n_eps_mag_len", e / (n as f64 * EPS * mag * len));
    }
    if let Guarded::Ok(Ok(_)) = &g {
        let expect = 1 + (1u64 << (n - 1));
        rep.max("romberg/calls_over_2^(n-1)+1", obs.calls as f64 / expect as f64);
    }
    if in_class && fun.degree() + 2 >= 2 * n - 1 {
        rep.count("romberg/top_degree_cases", 1);
    }
    let nontrivial = n >= 2;
    note_case(rep, &c, fun, &obs, in_class, nontrivial, &|j| j.set("exact_integral", cj(exact)).set("error", err.unwrap_or(f64::NAN)).set("allowed_error", bound).set("degree", fun.degree()));
}

// ------------------------------------------------------------------ Err cases

const ERR_KINDS: [&str; 7] = ["reversed-interval", "empty-interval", "negative-tolerance", "reversed-interval-and-negative-tolerance", "empty-interval-at-zero", "empty-interval-from-minus-zero-to-plus-zero", "empty-interval-from-plus-zero-to-minus-zero"];

fn run_err_case(rep: &mut Report, rng: &mut Rng, rt: Rt, kind: usize, complex: bool) {
    let name = rt.name();
    let (a0, b0) = gen_interval(rng);
    let tol0 = gen_tol(rng);
    let neg_tol = *rng.pick(&[-1e-6, -1.0, -1e-300, -1e300, -tol0, -1e-11]);
    let (a, b, tol) = match kind {
        0 => (b0, a0, tol0),
        1 => (a0, a0, tol0),
        2 => (a0, b0, neg_tol),
        3 => (b0, a0, neg_tol),
        4 => (0.0, 0.0, tol0),
        // -0.0 == +0.0: both orders are the empty interval
        5 => (-0.0, 0.0, tol0),
        _ => (0.0, -0.0, tol0),
    };
    let fun = if rt.has_interval() { gen_fun_interval(rng, complex, a0, b0, Mix::All, 5) } else { gen_fun_weighted(rng, complex, rt.weight().unwrap()) };
    let n = if rt == Rt::Simpson { 60 } else { 1 + rng.below(8) };
    let c = Call { rt, a, b, tol, n };
    let (g, obs) = call_lib(&c, &fun);
    rep.eval();
    rep.count(&format!("{}/err_expected_cases", name), 1);
    rep.count(&format!("err_expected/{}", ERR_KINDS[kind]), 1);
    rep.max(&format!("{}/integrand_calls_on_invalid_input", name), obs.calls as f64);
    let cjson = |o: &str| case_json(&c, &fun).set("left", a).set("right", b).set("tol", tol).set("invalid_because", ERR_KINDS[kind]).set("observed", o).set("integrand_calls", obs.calls);
    match &g {
        Guarded::Ok(Err(_)) => {
            rep.count(&format!("{}/err_returned", name), 1);
            rep.nontrivial(case_hash(&c, &fun));
        }
        Guarded::Ok(Ok(v)) => rep.violation(&format!("{}/ok-on-{}", name, ERR_KINDS[kind]), cjson(&format!("Ok({:e}{:+e}i)", v.re, v.im)), format!("{} with left={:e}, right={:e}, tol={:e} returned Ok({:e}{:+e}i); Err is required", rt.api(), a, b, tol, v.re, v.im)),
        Guarded::Panic(m, l) => rep.violation(&format!("{}/panic-on-{}", name, ERR_KINDS[kind]), cjson(&format!("panic: {}", m)), format!("{} with left={:e}, right={:e}, tol={:e} panicked ('{}' at {}); Err is required", rt.api(), a, b, tol, m, l)),
        Guarded::Budget => rep.violation(&format!("{}/no-return-on-{}", name, ERR_KINDS[kind]), cjson("evaluation budget exhausted"), format!("{} with left={:e}, right={:e}, tol={:e} did not return within {} evaluations; Err is required", rt.api(), a, b, tol, BUDGET)),
    }
}

// ------------------------------------------------------------------ stage bodies

fn case_tanhsinh(rng: &mut Rng, rep: &mut Report) {
    // Stratum "early levels" (40 % of the cases): loose tolerance, long interval, an oscillatory
    // integrand of frequency 4..8 (optionally times a unit-modulus complex factor). This is where
    // the squared-difference stopping heuristic of the first levels decides the outcome; a stop
    // one level too early returns errors of 60..6000 tol there (seeded change C09-m3), but only
    // about 1 in 4000 members of the general family is sensitive to it.
    if rng.chance(0.4) {
        let len = rng.r(2.5, 4.0);
        let a = rng.r(-5.0, 5.0 - len);
        let b = a + len;
        let tol = rng.log10(-5.0, -3.0);
        let complex = rng.chance(0.3);
        let mut fun = Fun::zero(complex);
        let n_s = 1 + rng.below(2);
        for _ in 0..n_s {
            fun.sins.push((rng.r(0.5, 1.5) * rng.sign(), rng.r(4.0, 8.0), rng.r(0.0, 6.283)));
        }
        if rng.bool() {
            fun.poly = vec![C::new(rng.r(-1.0, 1.0), 0.0)];
        }
        if complex {
            fun.exps.push((C::new(rng.r(-1.0, 1.0), rng.r(-1.0, 1.0)), C::new(0.0, rng.r(0.5, 3.0))));
        }
        rep.count("tanhsinh/early_levels_stratum", 1);
        // the stratum is steered where possible: among up to 600 candidates take one whose first two
        // level differences look "already quadratic" (ln d1 / ln d0 near 2 with d1^2 below the
        // tolerance) — the coincidence that decides whether a premature stop would go unnoticed
        {
            let mut best: Option<(Fun, f64, f64, f64)> = None;
            for _ in 0..600 {
                let len = rng.r(2.5, 4.0);
                let a2 = rng.r(-5.0, 5.0 - len);
                let b2 = a2 + len;
                let tol2 = rng.log10(-5.0, -3.0);
                let mut f2 = Fun::zero(complex);
                // stay inside the family the class is defined on: exponential type x half length <= 6.5
                let wmax = (DE_SIGMA_CORE_MAX - 0.05) * 2.0 / len;
                f2.sins.push((rng.r(0.5, 1.5) * rng.sign(), rng.r(0.6 * wmax, wmax), rng.r(0.0, 6.283)));
                if complex {
                    f2.exps.push((C::new(rng.r(-1.0, 1.0), rng.r(-1.0, 1.0)), C::new(0.0, rng.r(0.5, 3.0).min(wmax))));
                }
                let (scale, shift) = (0.5 * len, 0.5 * (a2 + b2));
                let (d0, d1) = de_first_differences(&|t: f64| f2.eval_c(scale * t + shift));
                if d0 > 0.0 && d1 > 0.0 && d0 < 1.0 && d1 < 1.0 {
                    let r = d1.ln() / d0.ln();
                    if r > 1.85 && r < 2.15 && d1 * d1 < tol2 {
                        // keep only candidates that are in the class in which accuracy is required
                        // (same predicate as run_tanhsinh applies)
                        let (exact, mag) = f2.integral(a2, b2);
                        let rp = de_replay(&|t: f64| f2.eval_c(scale * t + shift), exact / scale, tol2, 0.5 * tol2 / scale.max(1.0));
                        let rounding_ok = FLOOR_C * EPS * mag * 2.0 <= tol2 / CLASS_FLOOR_DIV;
                        if rounding_ok && rp.certain.is_some() && rp.potential_ok {
                            best = Some((f2, a2, b2, tol2));
                            break;
                        }
                    }
                }
            }
            if let Some((f2, a2, b2, tol2)) = best {
                rep.count("tanhsinh/early_levels_steered", 1);
                run_tanhsinh(rep, &f2, a2, b2, tol2);
                return;
            }
        }
        run_tanhsinh(rep, &fun, a, b, tol);
        return;
    }
    // Stratum "small difference outside the trend window" (6 %, steered): a level l >= 2 whose
    // difference is accidentally small (d^2 < tol <= d) while r = ln d_l / ln d_{l-1} is clearly
    // outside (1.9, 2.1) and the estimate of that level is still far off. The routine must go on
    // there; trusting d^2 regardless of the trend returns errors of 10..1000 tol (C09-m13). About
    // 4 in 100 000 members of the general family are sensitive without steering.
    if rng.chance(0.06) {
        let complex = rng.chance(0.3);
        for _ in 0..400 {
            let len = rng.r(1.0, 4.0);
            let a2 = rng.r(-5.0, 5.0 - len);
            let b2 = a2 + len;
            let mut f2 = Fun::zero(complex);
            let wmax = (DE_SIGMA_CORE_MAX - 0.05) * 2.0 / len;
            f2.sins.push((rng.r(0.5, 1.5) * rng.sign(), rng.r(0.3 * wmax, wmax), rng.r(0.0, 6.283)));
            if rng.bool() {
                f2.exps.push((rc(rng, complex), C::new(rng.r(-1.0, 1.0).min(wmax), 0.0)));
            }
            let (scale, shift) = (0.5 * len, 0.5 * (a2 + b2));
            let (exact, mag) = f2.integral(a2, b2);
            let fc = |t: f64| f2.eval_c(scale * t + shift);
            let lv = de_levels(&fc, exact / scale);
            let mut pick = None;
            for l in 2..lv.len().min(6) {
                let (d, err) = lv[l];
                let dp = lv[l - 1].0;
                if !(d > 0.0 && dp > 0.0 && d < 1.0 && dp < 0.9) {
                    continue;
                }
                let r = d.ln() / dp.ln();
                // tol in (1.3 d^2, min(0.7 d, err / (12 scale))): the squared difference is below it, the
                // difference is not, and the level's error is far above it
                let lo = 1.3 * d * d;
                let hi = (0.7 * d).min(err * scale.max(1.0) / 12.0);
                if (r > 2.3 || r < 1.7) && hi > 1.5 * lo && lo >= 1e-9 {
                    pick = Some(lo * (hi / lo).powf(rng.r(0.2, 0.8)));
                    break;
                }
            }
            if let Some(tol2) = pick {
                let rp = de_replay(&fc, exact / scale, tol2, 0.5 * tol2 / scale.max(1.0));
                let rounding_ok = FLOOR_C * EPS * mag * 2.0 <= tol2 / CLASS_FLOOR_DIV;
                if rounding_ok && rp.certain.is_some() && rp.potential_ok {
                    rep.count("tanhsinh/small_difference_outside_trend_window_steered", 1);
                    run_tanhsinh(rep, &f2, a2, b2, tol2);
                    return;
                }
            }
        }
        rep.count("tanhsinh/small_difference_outside_trend_window_not_found", 1);
    }
    let complex = rng.chance(0.3);
    // Stratum "odd on a symmetric interval" (4 %): the integral is exactly 0 and every level sum
    // cancels exactly, so every difference between levels is exactly zero
    if rng.chance(0.04) {
        let half = rng.r(0.05, 2.0);
        let tol = gen_tol(rng);
        let mut fun = Fun::zero(complex);
        let deg = 1 + 2 * rng.below(4);
        fun.poly = (0..=deg).map(|k| if k % 2 == 1 { rc(rng, complex) } else { C::new(0.0, 0.0) }).collect();
        if rng.bool() {
            fun.sins.push((rng.r(-1.0, 1.0), rng.r(0.5, 3.0), 0.0));
        }
        rep.count("tanhsinh/odd_on_symmetric_interval", 1);
        run_tanhsinh(rep, &fun, -half, half, tol);
        return;
    }
    let (a, b) = gen_interval(rng);
    let tol = gen_tol(rng);
    let fun = gen_fun_interval(rng, complex, a, b, Mix::All, DE_DEG_MAX);
    run_tanhsinh(rep, &fun, a, b, tol);
}

/// structured adversarial member: shift the integrand so that it vanishes at the node of the
/// one-point rule (the first approximation is then 0, like the value the sequence starts from)
fn vanish_at(fun: &mut Fun, x1: f64) {
    let v = fun.eval_c(x1);
    if fun.poly.is_empty() {
        fun.poly.push(C::new(0.0, 0.0));
    }
    fun.poly[0] -= v;
}

fn case_gauss(rng: &mut Rng, rep: &mut Report) {
    let complex = rng.chance(0.3);
    let (mut a, mut b) = gen_interval(rng);
    let mut tol = gen_tol(rng);
    // Stratum "short interval, large values, tight tolerance" (12 %): the tolerance handed to the
    // rule sequence is the caller's divided by the half length; on a short interval a wrong scaling
    // of it is off by the square of the half length (1600 x at length 0.05), which only shows when
    // the integrand is large enough for the rule sums to carry rounding noise near that level
    let short = rng.chance(0.12);
    if short {
        let len = rng.r(0.05, 0.4);
        a = rng.r(-5.0, 5.0 - len);
        b = a + len;
        tol = rng.log10(-11.0, -9.0);
    }
    let mut fun = gen_fun_interval(rng, complex, a, b, Mix::All, 2 * (ROWS_LEGENDRE - 2) - 1);
    if !short && rng.chance(0.08) {
        // Stratum "large mean value, small unresolved component": a constant of size 1e2..2e3 plus a
        // small centred polynomial of degree 8..19. The tolerance is absolute: the early rules agree
        // to many digits RELATIVE to the integral long before they resolve the small component
        let deg = 8 + rng.below(12);
        let mut f2 = Fun::zero(complex);
        centred_poly(rng, &mut f2, a, b, deg);
        let g = rng.log10(-2.5, -0.5);
        for c in f2.poly.iter_mut() {
            *c *= g;
        }
        f2.poly[0] += C::new(rng.sign() * rng.log10(2.0, 3.3), 0.0);
        fun = f2;
        tol = rng.log10(-7.0, -3.0);
        rep.count("gauss/large_mean_small_component_cases", 1);
    }
    if short {
        let g = rng.log10(1.5, 3.5);
        for c in fun.poly.iter_mut() {
            *c *= g;
        }
        for e in fun.exps.iter_mut() {
            e.0 *= g;
        }
        for t in fun.sins.iter_mut() {
            t.0 *= g;
        }
        rep.count("gauss/short_interval_large_values_cases", 1);
    }
    if rng.chance(0.06) {
        vanish_at(&mut fun, 0.5 * (b + a));
        rep.count("gauss/cases_vanishing_at_first_node", 1);
    }
    run_gauss(rep, &fun, a, b, tol);
}

fn case_simpson_poly(rng: &mut Rng, rep: &mut Report) {
    let complex = rng.chance(0.3);
    let (a, b) = gen_interval(rng);
    let tol = gen_tol(rng);
    let mut fun = Fun::zero(complex);
    let deg = if rng.chance(0.7) { 4 + rng.below(2) } else { rng.below(4) };
    if rng.bool() {
        centred_poly(rng, &mut fun, a, b, deg);
    } else {
        monomial_poly(rng, &mut fun, deg);
    }
    let tight: Option<i64> = match rng.below(10) {
        0..=3 => Some(rng.below(2) as i64),
        // a depth limit below what the integrand needs: Err, or an Ok that is accurate all the same
        4 | 5 => Some(-(1 + rng.below(4) as i64)),
        _ => None,
    };
    run_simpson_depth(rep, &fun, a, b, tol, tight);
}

fn case_simpson_smooth(rng: &mut Rng, rep: &mut Report) {
    let complex = rng.chance(0.3);
    let (a, b) = gen_interval(rng);
    let tol = gen_tol(rng);
    let fun = gen_fun_interval(rng, complex, a, b, Mix::Smooth, 4);
    run_simpson(rep, &fun, a, b, tol, None);
}

fn case_romberg(rng: &mut Rng, rep: &mut Report) {
    if rng.chance(0.08) {
        return case_romberg_equal_entries(rng, rep);
    }
    let complex = rng.chance(0.3);
    let (a, b) = gen_interval(rng);
    // mostly 1..12 rows; a few cases with 13..20 rows (up to 2^19 + 1 evaluations): the property
    // holds for every n, and row counts beyond 16 are where integer powers of 4 leave 32 bits
    let many_rows = rng.chance(0.02);
    let n = if many_rows { 13 + rng.below(8) } else { 1 + rng.below(12) };
    if many_rows {
        rep.count("romberg/cases_with_13_to_20_rows", 1);
    }
    let top = if many_rows { 7 } else { 2 * n - 1 };
    let deg = if rng.chance(0.6) { top - rng.below(2) } else { rng.below(top + 1) };
    let mut fun = Fun::zero(complex);
    if deg <= 5 && rng.chance(0.3) {
        monomial_poly(rng, &mut fun, deg);
    } else {
        centred_poly(rng, &mut fun, a, b, deg);
    }
    run_romberg(rep, &fun, a, b, n);
}

fn case_weighted(rt: Rt, rng: &mut Rng, rep: &mut Report) {
    let complex = rng.chance(0.3);
    let tol = gen_tol(rng);
    let mut fun = gen_fun_weighted(rng, complex, rt.weight().unwrap());
    if rng.chance(0.06) {
        vanish_at(&mut fun, if rt == Rt::Laguerre { 1.0 } else { 0.0 });
        rep.count(&format!("{}/cases_vanishing_at_first_node", rt.name()), 1);
    }
    run_weighted(rep, rt, &fun, tol);
}

const STAGE_TAGS: [&str; 10] = ["tanhsinh", "gauss", "simpson-poly", "simpson-smooth", "romberg", "laguerre", "hermite", "chebyshev", "chebyshev2", "errs"];

fn dispatch(tag_idx: usize, rng: &mut Rng, rep: &mut Report, i: u64) {
    match tag_idx {
        0 => case_tanhsinh(rng, rep),
        1 => case_gauss(rng, rep),
        2 => case_simpson_poly(rng, rep),
        3 => case_simpson_smooth(rng, rep),
        4 => case_romberg(rng, rep),
        5 => case_weighted(Rt::Laguerre, rng, rep),
        6 => case_weighted(Rt::Hermite, rng, rep),
        7 => case_weighted(Rt::Cheb1, rng, rep),
        8 => case_weighted(Rt::Cheb2, rng, rep),
        _ => {
            // every valid (routine, kind of invalid input) pair, real and complex
            let mut combos: Vec<(Rt, usize)> = vec![];
            for rt in Rt::ALL {
                for kind in 0..ERR_KINDS.len() {
                    let interval_kind = kind != 2;
                    let tol_kind = kind == 2 || kind == 3;
                    if (interval_kind && !rt.has_interval()) || (tol_kind && !rt.has_tol()) {
                        continue;
                    }
                    combos.push((rt, kind));
                }
            }
            let (rt, kind) = combos[(i % combos.len() as u64) as usize];
            let complex = (i / combos.len() as u64) % 2 == 1;
            run_err_case(rep, rng, rt, kind, complex);
        }
    }
}

/// classic closed-form integrals, written out (seed independent):
/// int_0^1 e^x, int_0^pi sin x, int_-1^2 (x^5 - 3x^3 + x - 1), int_0^2 e^{ix} through the four
/// finite-interval routines; int w(x) cos x, int w(x) e^{x/2}, int w(x) (x^4 - x + 1) through the
/// four weighted routines; three tolerances each.
fn textbook_anchor(k: u64, rep: &mut Report) {
    let pi = std::f64::consts::PI;
    let r = |x: f64| C::new(x, 0.0);
    let tol = [1e-4, 1e-7, 1e-10][(k % 3) as usize];
    let which = (k / 3) % 4;
    let routine = (k / 12) % 8;
    if routine < 4 {
        let mut fun = Fun::zero(which == 3);
        let (a, b) = match which {
            0 => {
                fun.exps.push((r(1.0), r(1.0)));
                (0.0, 1.0)
            }
            1 => {
                fun.sins.push((1.0, 1.0, 0.0));
                (0.0, pi)
            }
            2 => {
                fun.poly = vec![r(-1.0), r(1.0), r(0.0), r(-3.0), r(0.0), r(1.0)];
                (-1.0, 2.0)
            }
            _ => {
                fun.exps.push((r(1.0), C::new(0.0, 1.0)));
                (0.0, 2.0)
            }
        };
        match routine {
            0 => run_tanhsinh(rep, &fun, a, b, tol),
            1 => run_gauss(rep, &fun, a, b, tol),
            2 => run_simpson(rep, &fun, a, b, tol, None),
            _ => {
                // Romberg claims exactness for polynomials only: degree 5 needs n >= 3
                fun = Fun::zero(false);
                fun.poly = vec![r(-1.0), r(1.0), r(0.0), r(-3.0), r(0.0), r(1.0)];
                run_romberg(rep, &fun, -1.0 - which as f64 * 0.5, 2.0, 3 + (k % 3) as usize)
            }
        }
    } else {
        let rt = [Rt::Laguerre, Rt::Hermite, Rt::Cheb1, Rt::Cheb2][(routine - 4) as usize];
        let mut fun = Fun::zero(which == 3);
        match which {
            0 => fun.sins.push((1.0, 1.0, pi / 2.0)),
            1 => fun.exps.push((r(1.0), r(0.5))),
            2 => fun.poly = vec![r(1.0), r(-1.0), r(0.0), r(0.0), r(1.0)],
            _ => fun.exps.push((r(1.0), C::new(-0.25, 0.5))),
        }
        run_weighted(rep, rt, &fun, tol.max(1e-8));
    }
}

const N_TEXTBOOK: u64 = 96;
const ANCHORS_PER_TAG: u64 = 60;

pub fn meta() -> CheckMeta {
    CheckMeta {
        id: "C09",
        level: "exploration",
        rule: "cases: G-quad integrands f = P((x-x0)/s) + sum c e^{rx} + sum d sin(wx+phi) (real and complex, closed-form integrals) on intervals of length 0.05..4 in [-5,5], tol 10^[-11,-3], x 8 routines; plus Err-expected calls (reversed/empty interval, negative tolerance). A case is non-trivial when it is inside the routine's reliability class (where Ok and the accuracy bound are asserted) and the call count shows >= 3 rules (Gauss family, >= 6 calls), >= 2 levels (tanh-sinh, >= 13 calls), >= 1 subdivision (Simpson, > 5 calls; for the smooth family: work bound compared), >= 2 rows (Romberg); Err-expected cases count when Err was returned. distinct = distinct hash of (routine, interval, tol, n, all integrand parameters)".into(),
        assumptions: vec![
            "accuracy and Ok are asserted only inside the routine's reliability class, computed by the harness: (Gauss-Legendre) the classical remainder bound with the integrand's derivative bound puts rules n, n+1, n+2 (n <= 10) within tol/32 of the integral, AND on the harness's own Gauss rule sequence two consecutive differences fall below 0.75*tol/4 inside the table while every rule at which two consecutive differences are below 1.25*tol/4 (incl. the library's first difference |A_1 - 0|) is accurate to tol/2; (Laguerre, Hermite, both Chebyshev) the same replay on the harness's own rules with tol in place of tol/4; (tanh-sinh) exponential type * half length <= 6.5, degree <= 19, tol >= 1e-11, and on the harness's own level sums some level >= 2 differs from the previous one by < 0.75 tol while every level >= 2 whose squared difference is < 1.25 tol is accurate to tol/2 - the tolerance-proportional bound 8 tol is asserted for tol >= 1e-8 only, 8 sqrt(tol) below; (Simpson, hard bound) polynomials of degree <= 5, Ok also for n_max = depth bound + 1; (Romberg) polynomials of degree <= 2n-1".into(),
            "always: the tolerance must be resolvable: floor <= tol/8 (tol/32 for Gauss-Legendre) with floor = rho * (term-by-term magnitude of the integrand) * (interval length | 1), rho = max(64 eps, assumed accuracy of the tabulated rows in use). The tabulated rows are NOT correctly rounded (moment errors measured against the harness rules: Legendre n=12 390 eps, Laguerre n=8..12 1.5e3..1.8e5 eps, Hermite n=21..27 6e3..1.5e5 eps, Chebyshev <= 31 eps); rho is frozen at 5-8 x these (table_rel); auditing the tables is C10".into(),
            "the harness's own rule sequences (Golub-Welsch nodes + Christoffel weights, validated against closed-form moments to 1e-11; observed 2e-15) and level sums decide class membership only; the oracle is always the closed-form integral".into(),
            "bounds: K*tol + floor with K = 4 (Gauss family), 8 (tanh-sinh), 1 (Simpson on degree <= 5: theorem 2/3); Romberg 128*n*eps*magnitude*(b-a); Simpson work: calls <= 2*N_textbook + 16".into(),
            "tanh-sinh abscissae may exceed the interval ends by the rounding of scale*x+shift (2 ulp of the larger end point); all other finite-interval routines: exact containment; Chebyshev abscissae strictly inside (-1,1), Laguerre abscissae >= 0".into(),
            "nothing is asserted about Ok/Err or accuracy outside the class, about n = 0 rows in integrate_fixed, or about -0.0 / NaN tolerances".into(),
        ],
        exhaustive: false,
        stuck_is_violation: false,
    }
}

#[allow(dead_code, unused_imports, clippy::all)]
mod tables {
    // the working tree's tables (see c10.rs): used here only to aim integrands at the rules' own nodes
    include!(concat!(env!("OUT_DIR"), "/tables_include.rs"));
}

/// Integrands that vanish exactly where a rule samples them (evaluated in factored form, so the zeros are
/// exact): an even polynomial whose roots are the nodes of the n- and the (n+1)-point Gauss-Legendre rules -
/// both rules give exactly 0 and "agree", although the integral is not 0; rules n+2 onwards are exact for it
/// (degree 2n+2) - and (x^2 - a^2) g(x^2) with a an abscissa of the tanh-sinh rule, so that one mirror pair
/// of a level contributes exactly 0. Tolerances are relative to the integral, whose closed form comes from
/// the expanded polynomial.
fn roots_at_nodes_case(rep: &mut Report, i: u64, seed: u64) {
    let mut rng = Rng::for_case(seed, "c09-roots-at-nodes", i);
    // squared roots r_k^2 and whether the factor x^2 is present
    let gauss = i % 2 == 0;
    let (roots, with_x2, what): (Vec<f64>, bool, String) = if gauss {
        // rules n and n+1, n = 3..7 (not n = 2: with the node 0 of the 3-point rule the 1-point rule gives 0 as
        // well - three rules in a row agree on 0, and no stopping rule that looks at rule values can tell)
        let n = 3 + (i / 2 % 5) as usize;
        let mut r = vec![];
        let mut zero = false;
        for row in [tables::WEIGHTS_LEGENDRE[n - 1], tables::WEIGHTS_LEGENDRE[n]] {
            for (x, _) in row {
                if *x == 0.0 {
                    zero = true;
                } else {
                    r.push(*x);
                }
            }
        }
        (r, zero, format!("roots at the nodes of the {}- and {}-point Gauss-Legendre rules", n, n + 1))
    } else {
        if i / 2 % 4 == 3 {
            // the centre and every abscissa of level 0: the whole first level sums to exactly 0
            let r: Vec<f64> = tables::WEIGHTS_DE[0].iter().map(|(_, a)| *a).collect();
            return roots_at_nodes_run(rep, &mut rng, false, r, true, "roots at the centre and at every abscissa of tanh-sinh level 0".into());
        }
        let l = 1 + (i / 2 % 3) as usize;
        let row = tables::WEIGHTS_DE[l];
        let (_, a) = row[(i / 6) as usize % row.len().min(6)];
        let mut r = vec![a];
        // g(x^2): up to two further even factors with roots outside the interval (keeps the sign pattern simple)
        for _ in 0..rng.below(3) {
            r.push(rng.r(1.2, 3.0));
        }
        (r, rng.bool(), format!("(x^2 - a^2) g(x^2) with a = abscissa {:e} of tanh-sinh level {}", a, l))
    };
    roots_at_nodes_run(rep, &mut rng, gauss, roots, with_x2, what)
}

fn roots_at_nodes_run(rep: &mut Report, rng: &mut Rng, gauss: bool, roots: Vec<f64>, with_x2: bool, what: String) {
    let amp = rng.sign() * rng.log10(-1.0, 2.0);
    let f = |x: f64| -> f64 {
        let mut v = amp;
        if with_x2 {
            v *= x * x;
        }
        for r in &roots {
            v *= x * x - r * r;
        }
        v
    };
    // expanded in y = x^2: coefficients c_k of y^k, integral over [-1,1] = sum c_k 2/(2k+1)
    let mut c = vec![amp];
    if with_x2 {
        c.insert(0, 0.0);
    }
    for r in &roots {
        let mut next = vec![0.0; c.len() + 1];
        for (k, ck) in c.iter().enumerate() {
            next[k + 1] += ck;
            next[k] -= ck * r * r;
        }
        c = next;
    }
    let exact: f64 = c.iter().enumerate().map(|(k, ck)| ck * 2.0 / (2 * k + 1) as f64).sum();
    let mag: f64 = c.iter().enumerate().map(|(k, ck)| ck.abs() * 2.0 / (2 * k + 1) as f64).sum();
    if !(exact.abs() > 1e-6 * mag) {
        return;
    }
    let tol = exact.abs() * rng.log10(-6.0, -2.0);
    let name = if gauss { "integrate_gaussian" } else { "integrate" };
    probe::begin(2_000_000);
    let res = if gauss { probe::guard(|| integrate_gaussian(-1.0, 1.0, |x: f64| { probe::tick(); f(x) }, tol)) } else { probe::guard(|| integrate(-1.0, 1.0, |x: f64| { probe::tick(); f(x) }, tol)) };
    rep.eval();
    rep.count(&format!("roots_at_nodes/{}", name), 1);
    let case = || J::obj().set("routine", name).set("integrand", what.as_str()).set("amplitude", amp).set("factor_x2", with_x2).set("roots", J::fs(&roots)).set("interval", J::fs(&[-1.0, 1.0])).set("tol", tol).set("exact_integral", exact);
    match res {
        Guarded::Panic(m, l) => rep.violation(&format!("{}/panic", name), case(), format!("panicked: '{}' at {}", m, l)),
        Guarded::Budget => rep.violation(&format!("{}/no-termination", name), case(), "evaluation budget exhausted".into()),
        Guarded::Ok(Err(e)) => rep.violation(&format!("{}/err-on-polynomial", name), case(), format!("a polynomial of degree {} (exactly integrated by the rules from n = {} on) gave Err({})", 2 * (c.len() - 1), c.len(), e)),
        Guarded::Ok(Ok(v)) => {
            let err = (v - exact).abs();
            rep.max(&format!("roots_at_nodes/{}/error_over_tol", name), err / tol);
            rep.nontrivial(CaseHash::new("c09-ran").s(name).fs(&roots).f(amp).f(tol).0);
            if !(err <= tol + 64.0 * EPS * mag) {
                rep.violation(&format!("{}/roots-at-rule-nodes", name), case().set("returned", v), format!("{}: returned {:e}, the integral is {:e}: error {:e} = {:.3e} x tol ({})", name, v, exact, err, err / tol, what));
            }
        }
    }
}

pub fn stages(ctx: &Ctx) -> Vec<Stage> {
    let seed = ctx.seed;
    let tier = ctx.tier;
    let mut st = vec![];
    st.push(Stage::new("roots-at-rule-nodes", tier.pick(2_000u64, 20_000u64), move |i, rep| roots_at_nodes_case(rep, i, seed)));
    st.push(Stage::new("anchors", N_TEXTBOOK + ANCHORS_PER_TAG * STAGE_TAGS.len() as u64, move |i, rep| {
        if i < N_TEXTBOOK {
            textbook_anchor(i, rep);
        } else {
            let j = i - N_TEXTBOOK;
            let tag = (j % STAGE_TAGS.len() as u64) as usize;
            let k = j / STAGE_TAGS.len() as u64;
            let mut rng = Rng::for_case(20260926, STAGE_TAGS[tag], k);
            dispatch(tag, &mut rng, rep, k);
        }
    }));
    let n = tier.pick(40_000u64, 400_000u64);
    let n_err = tier.pick(8_800u64, 88_000u64);
    for (t, tag) in STAGE_TAGS.iter().enumerate() {
        let cases = if *tag == "errs" { n_err } else { n };
        st.push(Stage::new(tag, cases, move |i, rep| {
            let mut rng = Rng::for_case(seed, STAGE_TAGS[t], i);
            dispatch(t, &mut rng, rep, i);
        }));
    }
    st
}

pub fn thresholds(ctx: &Ctx, rep: &Report) -> Vec<Threshold> {
    let mut t = vec![];
    // quick: 20 000 cases per stage, thorough: 400 000; required = roughly a third of what the
    // unchanged tree shows
    let m = ctx.tier.pick(1.0, 10.0);
    for name in ["integrate_gaussian", "integrate"] {
        t.push(Threshold { what: format!("{}: polynomials with exact zeros at the rule's own nodes", name), required: 600.0 * m, observed: rep.counter(&format!("roots_at_nodes/{}", name)) as f64 });
    }
    let mut need = |what: String, quick: f64, key: String| {
        t.push(Threshold { what, required: quick * m, observed: rep.counter(&key) as f64 });
    };
    for rt in Rt::ALL {
        let name = rt.name();
        need(format!("{}: in-class cases that returned Ok and were compared with the closed form", name), 5000.0, format!("{}/in_class_ok", name));
        need(format!("{}: non-trivial in-class cases", name), 4000.0, format!("{}/nontrivial", name));
        need(format!("{}: complex-valued cases", name), 2000.0, format!("{}/complex_cases", name));
        need(format!("{}: Err-expected calls that returned Err", name), 150.0, format!("{}/err_returned", name));
        if DEEP_RULES[rt as usize] > 0 {
            let d = DEEP_RULES[rt as usize];
            need(format!("{}: in-class cases that need rule {} or beyond", name, d), 150.0, format!("{}/in_class_deep(certain stop at rule >= {})", name, d));
            need(format!("{}: in-class cases with tol < 1e-8", name), 300.0, format!("{}/in_class_tol_below_1e-8", name));
        }
    }
    for k in ERR_KINDS {
        need(format!("Err-expected calls of kind {}", k), 500.0, format!("err_expected/{}", k));
    }
    for name in ["chebyshev", "chebyshev2"] {
        need(format!("{}: in-class cases (dense Chebyshev-basis polynomials) whose certain stop is the last tabulated rule", name), 200.0, format!("{}/in_class_certain_stop_at_last_rule", name));
    }
    need("tanh-sinh in-class cases in the tolerance-proportional band (tol >= 1e-8)".into(), 4000.0, "tanhsinh/in_class_proportional_band".into());
    need("tanh-sinh in-class cases in the sqrt band (1e-11 <= tol < 1e-8)".into(), 2000.0, "tanhsinh/in_class_sqrt_band".into());
    need("Simpson runs whose work was compared with the textbook scheme on >= 50 panels".into(), 4000.0, "simpson/work_compared_with_50_or_more_panels".into());
    need("Simpson in-class cases with a depth limit below the depth bound".into(), 1500.0, "simpson/in_class_cases_with_possibly_insufficient_n_max".into());
    need("Simpson in-class cases with n_max = depth bound + 1 or + 2".into(), 1200.0, "simpson/in_class_tight_n_max".into());
    need("tanh-sinh cases steered to a small level difference outside the trend window".into(), 3.0, "tanhsinh/small_difference_outside_trend_window_steered".into());
    need("Gauss-Legendre cases with a large mean value and a small unresolved component".into(), 800.0, "gauss/large_mean_small_component_cases".into());
    need("Gauss-Legendre cases on short intervals with large values and tight tolerances".into(), 1_000.0, "gauss/short_interval_large_values_cases".into());
    need("Romberg cases with two exactly equal successive trapezoid sums that have not converged".into(), 2_000.0, "romberg/equal_entry_cases".into());
    need("Romberg cases with degree 2n-2 or 2n-1".into(), 5000.0, "romberg/top_degree_cases".into());
    t
}

