//! C08 — Newton-type iterations converge to the nearby root on regular problems; singular
//! systems and exhausted caps give Err, never a panic, a NaN or a silently wrong point.
//! Sub-modules: systems (newton, secant), polys (newton_polynomial, muller_polynomial), steff.

use crate::report::*;

#[path = "c08/systems.rs"]
mod systems;
#[path = "c08/polys.rs"]
mod polys;
#[path = "c08/steff.rs"]
mod steff;

pub const EPS: f64 = f64::EPSILON;

pub fn meta() -> CheckMeta {
    CheckMeta {
        id: "C08",
        level: "exploration",
        rule: "cases: newton and secant on G-rootn systems F(x)=A(x-r)+eps*Q(x-r), dim 1-4, cond(A) 1..1e3, roots at/near the origin and near +-100, starts inside the root-centred Newton radius (h = |A^-1| Lip(F') |x0-r| <= 0.25 newton, <= 0.02 secant), on the root, at the origin, affine members from arbitrary starts, exactly singular inconsistent affine systems and exhausted caps (Err expected); newton_polynomial on polynomials of degree 1-8 expanded from separated roots (real and complex) started inside the rigorous Newton basin of a simple root, on the root and at exactly 0; muller_polynomial from three distinct points; steffensen on a catalogue and on parametrised families of contractions (|g'| <= 0.7 near the fixed point) with tolerances 1e-2..1e-13. A case is non-trivial when it needed >= 2 iterations, or started on the root / at the origin, or Err is the expected outcome; distinct = hash of (routine, problem, start, parameters)".into(),
        assumptions: vec![
            "systems: Ok(x) must satisfy |x-r| <= 4 tol max(1,|r|) + 64 eps cond(A) (1+|r|); calls of f <= n_max (newton; jac likewise), <= n_max + 2 dim + 1 (secant)".into(),
            "newton_polynomial: |x-z| <= 4 tol + 64 eps (ptilde(|z|)/|p'(z)| + |z|); muller: |p(z)| <= 4 tol |p'(z)| + 64 eps ptilde(|z|), an Err of muller is counted, not flagged".into(),
            "steffensen: |x-x*| <= 4 tol + 64 eps (1+|x*|), calls <= 2 n_max; fixed points computed by float bisection of x-g(x) in the harness".into(),
            "singular systems are exactly singular integer matrices with an inconsistent right-hand side; secant uses a dyadic finite-difference width there so that its Jacobian is exactly the singular matrix".into(),
        ],
        exhaustive: false,
        stuck_is_violation: true,
    }
}

pub fn stages(ctx: &Ctx) -> Vec<Stage> {
    let mut st = vec![];
    st.extend(systems::stages(ctx));
    st.extend(polys::stages(ctx));
    st.extend(steff::stages(ctx));
    st
}

pub fn thresholds(ctx: &Ctx, rep: &Report) -> Vec<Threshold> {
    let mut t = vec![];
    t.extend(systems::thresholds(ctx, rep));
    t.extend(polys::thresholds(ctx, rep));
    t.extend(steff::thresholds(ctx, rep));
    t
}
