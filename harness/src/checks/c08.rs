//! C08 — Newton-type iterations converge to the nearby root on regular problems; singular
//! systems and exhausted caps give Err, never a panic, a NaN or a silently wrong point.
//! Sub-modules: systems (newton, secant), polys (newton_polynomial, muller_polynomial), steff.

use crate::report::*;

#[path = "c08/systems.rs"]
mod systems;
#[path = "c08/csystems.rs"]
mod csystems;
#[path = "c08/polys.rs"]
mod polys;
#[path = "c08/steff.rs"]
mod steff;

pub const EPS: f64 = f64::EPSILON;

pub fn meta() -> CheckMeta {
    CheckMeta {
        id: "C08",
        level: "exploration",
        rule: "cases: newton and secant on G-rootn systems F(x)=A(x-r)+eps*Q(x-r), dim 1-4, cond(A) 1..1e3, roots at/near the origin and near +-100, starts inside the root-centred Newton radius (h = |A^-1| Lip(F') |x0-r| <= 0.25 newton, <= 0.02 secant), on the root, at the origin, affine members from arbitrary starts, exactly singular inconsistent affine systems and exhausted caps (Err expected); affine systems over Complex<f64> (random complex matrices with controlled conditioning; Gaussian-integer triangular matrices with dyadic roots, dyadic finite-difference widths and a start an isotropic vector (1, +-i) away from the root, so that the first step lands on the root exactly); newton_polynomial on polynomials of degree 1-8 expanded from separated roots (real and complex) started inside the rigorous Newton basin of a simple root, on the root and at exactly 0; muller_polynomial from three distinct points; steffensen on a catalogue and on parametrised families of contractions (|g'| <= 0.7 near the fixed point) with tolerances 1e-2..1e-13. A case is non-trivial when it needed >= 2 iterations, or started on the root / at the origin, or Err is the expected outcome; distinct = hash of (routine, problem, start, parameters)".into(),
        assumptions: vec![
            "systems: Ok(x) must satisfy |x-r| <= 4 tol max(1,|r|) + 64 eps cond(A) (1+|r|); calls of f <= n_max (newton; jac likewise), <= n_max + 2 dim + 1 (secant)".into(),
            "newton_polynomial: |x-z| <= 4 tol + 64 eps (ptilde(|z|)/|p'(z)| + |z|); muller: |p(z)| <= 4 tol |p'(z)| + 64 eps ptilde(|z|), an Err of muller is counted, not flagged".into(),
            "steffensen: |x-x*| <= 4 tol + 64 eps (1+|x*|), calls <= 2 n_max; fixed points computed by float bisection of x-g(x) in the harness".into(),
            "singular systems are exactly singular integer matrices with an inconsistent right-hand side; secant uses a dyadic finite-difference width there so that its Jacobian is exactly the singular matrix".into(),
        ],
        exhaustive: false,
        stuck_is_violation: true,
    }
}

/// Degenerate starts of `newton_polynomial`: a start exactly on a critical point (p'(x0) = 0, the
/// first step is infinite or 0/0) or so large that the evaluation overflows. No root can be
/// promised there, but the property still forbids "a panic, a NaN or a silently wrong point": the
/// outcome must be Err, or Ok(z) with z finite and a root to within the residual bound.
/// (Added after the seeded change C08-m3 — a NaN step treated as convergence — went unnoticed.)
mod degenerate {
    use crate::json::J;
    use crate::probe::{self, Guarded};
    use crate::report::*;
    use crate::rng::{CaseHash, Rng};
    use bacon_sci::polynomial::Polynomial;
    use bacon_sci::roots::newton_polynomial;
    use num_complex::Complex;
    type C = Complex<f64>;

    fn expand(roots: &[f64], lead: f64) -> Vec<f64> {
        // ascending coefficients of lead * prod (x - r)
        let mut c = vec![lead];
        for r in roots {
            let mut n = vec![0.0; c.len() + 1];
            for (i, v) in c.iter().enumerate() {
                n[i + 1] += v;
                n[i] -= v * r;
            }
            c = n;
        }
        c
    }
    fn horner(c: &[f64], x: C) -> (C, C, f64) {
        let mut p = C::new(0.0, 0.0);
        let mut d = C::new(0.0, 0.0);
        let mut pt = 0.0;
        for v in c.iter().rev() {
            d = d * x + p;
            p = p * x + *v;
            pt = pt * x.norm() + v.abs();
        }
        (p, d, pt)
    }

    pub fn case(i: u64, seed: u64, rep: &mut Report) {
        let mut rng = if i < 60 { Rng::for_case(808, "c08-degenerate-anchor", i) } else { Rng::for_case(seed, "c08-degenerate", i) };
        let kind = i % 4;
        let tol = rng.log10(-10.0, -4.0);
        let n_max = 20 + rng.below(60);
        // (ascending coefficients, start)
        let (coef, start): (Vec<f64>, f64) = match kind {
            0 => {
                // even polynomial prod (x^2 - a_i^2), start exactly at the critical point 0
                let m = 1 + rng.below(3);
                let mut roots = vec![];
                let mut a = rng.r(0.4, 1.0);
                for _ in 0..m {
                    roots.push(a);
                    roots.push(-a);
                    a += rng.r(0.4, 1.0);
                }
                (expand(&roots, rng.r(0.5, 2.0) * rng.sign()), 0.0)
            }
            1 => {
                // x^2 + a^2 (no real root) from 0, on the real and on the complex type
                let a = rng.r(0.5, 2.0);
                (vec![a * a, 0.0, 1.0], 0.0)
            }
            2 => {
                // cubic with critical points at c +- d, started exactly on one of them:
                // p' = 3 (x - c)^2 - 3 d^2  =>  p = (x-c)^3 - 3 d^2 (x-c) + e, with dyadic c, d so that
                // p'(c +- d) is exactly zero in floating point
                let c = rng.int(-4, 4) as f64 * 0.5;
                let d = [0.5, 1.0, 2.0][rng.below(3)];
                let e = rng.int(-3, 3) as f64 * 0.25 + 0.125;
                let co = vec![-c * c * c + 3.0 * d * d * c + e, 3.0 * c * c - 3.0 * d * d, -3.0 * c, 1.0];
                (co, if rng.bool() { c + d } else { c - d })
            }
            _ => {
                // overflow: a huge start on a quartic / sextic
                let m = 2 + rng.below(2);
                let roots: Vec<f64> = (0..2 * m).map(|k| (k as f64 - m as f64 + 0.5) * rng.r(0.6, 1.2)).collect();
                (expand(&roots, 1.0), rng.sign() * 10f64.powi([80, 120, 200, 300][rng.below(4)]))
            }
        };
        for complex in [false, true] {
            rep.eval();
            rep.count("newton_polynomial/degenerate_starts", 1);
            let res: Guarded<Result<C, String>> = if complex {
                let poly: Polynomial<C> = coef.iter().map(|v| C::new(*v, 0.0)).collect();
                probe::guard(|| newton_polynomial(C::new(start, 0.0), &poly, tol, n_max))
            } else {
                let poly: Polynomial<f64> = coef.iter().copied().collect();
                probe::guard(|| newton_polynomial(start, &poly, tol, n_max).map(|x| C::new(x, 0.0)))
            };
            let case = || J::obj().set("routine", "newton_polynomial").set("field", if complex { "Complex<f64>" } else { "f64" }).set("coefficients_ascending", J::fs(&coef)).set("start", start).set("tol", tol).set("n_max", n_max);
            match res {
                Guarded::Panic(m, l) => rep.violation("newton_polynomial/panic", case(), format!("panicked on a degenerate start: {} at {}", m, l)),
                Guarded::Budget => {}
                Guarded::Ok(Err(_)) => {
                    rep.count("newton_polynomial/degenerate_err", 1);
                    rep.nontrivial(CaseHash::new("c08-deg").fs(&coef).f(start).u(complex as u64).0);
                }
                Guarded::Ok(Ok(z)) => {
                    if !(z.re.is_finite() && z.im.is_finite()) {
                        rep.violation("newton_polynomial/non-finite-result", case(), format!("returned Ok({}) from a start on a critical point / overflowing start; Err is required when no root was found", z));
                        continue;
                    }
                    let (p, d, pt) = horner(&coef, z);
                    let bound = 4.0 * tol * d.norm() + 64.0 * f64::EPSILON * pt;
                    rep.count("newton_polynomial/degenerate_ok", 1);
                    if !(p.norm() <= bound) {
                        rep.violation("newton_polynomial/wrong-root", case(), format!("returned Ok({}) with |p(z)| = {:e} > {:e}: not a root", z, p.norm(), bound));
                    } else {
                        rep.nontrivial(CaseHash::new("c08-deg").fs(&coef).f(start).u(complex as u64).0);
                    }
                }
            }
        }
    }
}

pub fn stages(ctx: &Ctx) -> Vec<Stage> {
    let mut st = vec![];
    st.extend(systems::stages(ctx));
    st.extend(csystems::stages(ctx));
    st.extend(polys::stages(ctx));
    st.extend(steff::stages(ctx));
    let seed = ctx.seed;
    st.push(Stage::new("newton-poly-degenerate-starts", ctx.tier.pick(2_000, 50_000), move |i, rep| degenerate::case(i, seed, rep)));
    st
}

pub fn thresholds(ctx: &Ctx, rep: &Report) -> Vec<Threshold> {
    let mut t = vec![];
    t.extend(systems::thresholds(ctx, rep));
    t.extend(csystems::thresholds(ctx, rep));
    t.extend(polys::thresholds(ctx, rep));
    t.extend(steff::thresholds(ctx, rep));
    t.push(Threshold { what: "newton_polynomial: degenerate starts (critical point / overflow)".into(), required: ctx.tier.pick(3_000.0, 80_000.0), observed: rep.counter("newton_polynomial/degenerate_starts") as f64 });
    t
}
