//! C05 — adaptive IVP solvers finish smooth problems with order-appropriate work.
//! Work accounting: the derivative closure counts its own invocations and enforces a hard budget,
//! so a non-terminating solve is an observation, not a hang.

use crate::gen::ivp::*;
use crate::ivpdrv::*;
use crate::json::J;
use crate::report::*;
use crate::rng::{CaseHash, Rng};

/// G_s: points <= G_s (T L tol^(-1/p) + T/dt_max) + order + 2   (observed maxima in DESIGN.md C05)
pub fn g_const(s: Solver) -> f64 {
    match s {
        // observed maxima of points / (T L tol^(-1/p) + T/dt_max) over 608 000 solves (thorough, seed 1)
        Solver::RK45 => 5.0,   // 0.48
        Solver::RK23 => 5.0,   // 0.45
        Solver::Adams5 => 8.0, // 1.01
        Solver::Adams3 => 5.0, // 0.55
        Solver::BDF6 => 17.0,  // 1.33
        Solver::BDF2 => 15.0,  // 2.93
        Solver::Euler => f64::NAN,
    }
}

/// kappa_s: calls <= kappa_s (points + 10)   (the +10 points pay for rejected start-ups / first trials on short paths)
pub fn kappa(s: Solver, dim: usize) -> f64 {
    match s {
        // observed maxima of calls / (points + 10) over 608 000 solves
        Solver::RK45 => 20.0,  // 9.1 (1.5 trials per accepted step when the cap is 10x the accuracy rule)
        Solver::RK23 => 10.0,  // 4.6
        Solver::Adams5 => 15.0, // 6.9 (every step growth costs a 4-step RK4 restart)
        Solver::Adams3 => 6.0, // 2.9
        // two implicit solves per step: 2d finite-difference calls + Newton + quasi-Newton iterations each
        Solver::BDF6 | Solver::BDF2 => 3.0 * (2.0 * dim as f64 + 8.0), // 0.66 of 2(2d+8)
        Solver::Euler => f64::NAN,
    }
}

pub fn meta() -> CheckMeta {
    CheckMeta {
        id: "C05",
        level: "exploration",
        rule: "cases: 6 adaptive solvers x G-ivp (incl. at-rest and relaxing members, dim 1-4) x tol 1e-9..1e-3 x dt_min <= 1e-6 dt_max, plus a BDF-tight stratum (dim >= 2, tol 1e-10..1e-9). Monitors: no Err item, path ends at t_end, points <= G_s (T L tol^(-1/p) + T/dt_max) + order + 2, derivative calls <= kappa_s (points + 10), hard budget 20x the implied total; work-scaling stage: points(tol/1000)/points(tol) <= 4 x 1000^(1/p) on estimator-limited pairs. A solve is non-trivial when it has >= 20 points and its step varied by >= 2x (growth or rejection seen); distinct = hash of (solver, problem, configuration)".into(),
        assumptions: vec![
            "L is the generator's Lipschitz/time-scale bound of the problem; the work bound is split into a point-count factor G_s and a calls-per-point factor kappa_s (DESIGN.md C05)".into(),
            "budgets are counted in derivative invocations by the user closure itself, never in wall-clock time".into(),
        ],
        exhaustive: false,
        stuck_is_violation: true,
    }
}

fn implied_points(solver: Solver, cfg: &Cfg, lip: f64) -> f64 {
    let t = cfg.span();
    g_const(solver) * (t * lip * cfg.tol.powf(-1.0 / solver.est_order()) + t / cfg.dt_max) + solver.history() as f64 + 3.0
}

fn run_case(rep: &mut Report, solver: Solver, prob: &IvpProblem, cfg: &Cfg, mode: DimMode, stratum: &str) {
    run_case_field(rep, solver, prob, cfg, mode, stratum, false)
}

/// `complex`: the problem (even dimension 2n) is solved over Complex<f64> with n components
fn run_case_field(rep: &mut Report, solver: Solver, prob: &IvpProblem, cfg: &Cfg, mode: DimMode, stratum: &str, complex: bool) {
    let sname = solver.name();
    let pts_bound = implied_points(solver, cfg, prob.lip);
    let kap = kappa(solver, if complex { prob.n / 2 } else { prob.n });
    let implied_calls = kap * (pts_bound + 10.0);
    let budget = (20.0 * implied_calls) as u64;
    let opts = Opts { budget, max_items: (20.0 * pts_bound) as usize + 100, mode, order: ((cfg.t1.to_bits() >> 7) % 6) as u8, ..Default::default() };
    let out = if complex { outcome_as_real(&solve_complex(solver, cfg, &pack_complex(&prob.y0), &ComplexOf { real: prob }, &opts)) } else { solve_real(solver, cfg, &prob.y0, prob, &opts) };
    rep.eval();
    rep.count(&format!("{}/solves", sname), 1);
    rep.count(&format!("{}/{}/solves", stratum, sname), 1);
    let case = || J::obj().set("solver", sname).set("field", if complex { "Complex<f64> (state = first n + i last n components of the problem)" } else { "f64" }).set("mode", format!("{:?}", mode)).set("stratum", stratum).set("cfg", cfg.to_json()).set("problem", prob.to_json());
    if let Some((m, l)) = &out.panic {
        rep.violation(&format!("{}/panic", sname), case(), format!("solver panicked: '{}' at {}", m, l));
        return;
    }
    if out.build_err.is_some() {
        rep.violation(&format!("{}/valid-config-rejected", sname), case(), format!("{:?}", out.build_err));
        return;
    }
    let pts = out.ok_points();
    if out.budget_hit || out.truncated {
        rep.violation(
            &format!("{}/work-budget-exhausted", sname),
            case(),
            format!(
                "hard budget hit: {} derivative calls / {} points without finishing (order-appropriate total is about {:.0} calls, {:.0} points); last time reached {:?} of [{:e}, {:e}]",
                out.calls,
                pts.len(),
                implied_calls,
                pts_bound,
                pts.last().map(|p| p.0),
                cfg.t0,
                cfg.t1
            ),
        );
        return;
    }
    if let Some(e) = out.first_err() {
        rep.violation(
            &format!("{}/error-on-smooth-problem/{}", sname, match e {
                ErrKind::MinDt => "MinimumTimeDeltaExceeded",
                ErrKind::MaxIter => "MaximumIterationsExceeded",
                ErrKind::Singular => "SingularMatrix",
                _ => "other",
            }),
            case(),
            format!("solve reported {} after {} points and {} derivative calls (dt_min = {:e} dt_max)", e.short(), pts.len(), out.calls, cfg.dt_min / cfg.dt_max),
        );
        return;
    }
    // completed: must have reached the end (exact end time is C01's statement; here: not early)
    match pts.last() {
        None => {
            rep.violation(&format!("{}/stopped-early", sname), case(), "solve ended without error and without any point".into());
            return;
        }
        Some((t, _)) => {
            if !(*t >= cfg.t1 - 1e-9 * cfg.span()) {
                rep.violation(&format!("{}/stopped-early", sname), case(), format!("solve ended without error at t={:e}, before the ending time {:e}", t, cfg.t1));
                return;
            }
        }
    }
    let npts = pts.len() as f64;
    let r1 = npts / pts_bound * g_const(solver);
    rep.max(&format!("{}/points_ratio_G", sname), r1);
    rep.max(&format!("{}/points_over_bound", sname), npts / pts_bound);
    if !(npts <= pts_bound) {
        rep.violation(
            &format!("{}/too-many-points", sname),
            case(),
            format!("{} points for T={:.3e}, L={:.3}, tol={:.2e}, dt_max={:.3e}: bound {:.0} (G={})", npts, cfg.span(), prob.lip, cfg.tol, cfg.dt_max, pts_bound, g_const(solver)),
        );
        return;
    }
    let cpp = out.calls as f64 / (npts + 10.0);
    rep.max(&format!("{}/calls_per_point", sname), cpp);
    rep.max(&format!("{}/calls_per_point_over_kappa", sname), cpp / kap);
    if !(out.calls as f64 <= kap * (npts + 10.0)) {
        rep.violation(
            &format!("{}/too-many-calls-per-point", sname),
            case(),
            format!("{} derivative calls for {} points ({:.1} per point, bound {} x (points + 10))", out.calls, npts, out.calls as f64 / npts, kap),
        );
        return;
    }
    rep.count(&format!("{}/completed", sname), 1);
    // non-trivial: >= 20 points whose step varied by >= 2x
    if pts.len() >= 20 {
        let mut p = cfg.t0;
        let mut hmin = f64::INFINITY;
        let mut hmax: f64 = 0.0;
        for (i, (t, _)) in pts.iter().enumerate() {
            if i + 1 < pts.len() {
                hmin = hmin.min(*t - p);
                hmax = hmax.max(*t - p);
            }
            p = *t;
        }
        if hmax >= 2.0 * hmin {
            rep.count(&format!("{}/solves_with_step_variation", sname), 1);
            let h = CaseHash::new("c05").u(solver.idx() as u64).fs(&prob.a).fs(&prob.y0).f(cfg.t0).f(cfg.t1).f(cfg.dt_max).f(cfg.tol);
            rep.nontrivial(h.0);
            if rep.wants_sample() {
                rep.sample(case().set("points", pts.len()).set("derivative_calls", out.calls).set("points_bound", pts_bound).set("step_min", hmin).set("step_max", hmax));
            }
        }
    }
}

/// K_scale: points(tol/1000) / points(tol) <= K_scale * 1000^(1/p) for estimator-limited solves
/// (observed maxima per solver are written to the evidence)
const K_SCALE: f64 = 4.0;

/// Work-scaling monitor: "within a fixed factor of T tol^(-1/p)" means the work grows like
/// tol^(-1/p). The same problem is solved at tol and tol/1000 with a cap so large that the
/// estimator limits the steps; the ratio of the point counts is compared with 1000^(1/p). An
/// estimator that has lost orders (e.g. a start-up that is only second-order accurate in t) shows
/// here long before it exceeds the absolute bound, whose constant must cover the whole family.
fn scaling_case(rep: &mut Report, solver: Solver, prob: &IvpProblem, t0: f64, span: f64, tol1: f64) {
    let sname = solver.name();
    let mut counts = vec![];
    let mut est_limited = true;
    for tol in [tol1, tol1 * 1e-3] {
        let dt_max = span / 6.0;
        let cfg = Cfg { t0, t1: t0 + span, dt_min: dt_max * 1e-9, dt_max, tol };
        let opts = Opts { budget: 30_000_000, max_items: 3_000_000, mode: DimMode::Dynamic, order: ((cfg.t1.to_bits() >> 7) % 6) as u8, ..Default::default() };
        let out = solve_real(solver, &cfg, &prob.y0, prob, &opts);
        rep.eval();
        if !out.clean() {
            // errors / budgets on these problems are judged by the other stages' oracle
            let case = || J::obj().set("solver", sname).set("stratum", "scaling").set("cfg", cfg.to_json()).set("problem", prob.to_json());
            if out.budget_hit || out.truncated {
                rep.violation(&format!("{}/work-budget-exhausted", sname), case(), format!("scaling run: {} calls / {} points without finishing", out.calls, out.ok_points().len()));
            } else if let Some(e) = out.first_err() {
                rep.violation(&format!("{}/error-on-smooth-problem/scaling", sname), case(), format!("scaling run reported {}", e.short()));
            } else if let Some((m, l)) = &out.panic {
                rep.violation(&format!("{}/panic", sname), case(), format!("{} at {}", m, l));
            }
            return;
        }
        let pts = out.ok_points();
        let mut hs: Vec<f64> = vec![];
        let mut p = t0;
        for (t, _) in &pts {
            hs.push(*t - p);
            p = *t;
        }
        hs.sort_by(|a, b| a.partial_cmp(b).unwrap());
        if hs.is_empty() || hs[hs.len() / 2] > 0.5 * dt_max {
            est_limited = false;
        }
        counts.push(pts.len() as f64);
    }
    if !est_limited || counts[0] < 30.0 {
        rep.count(&format!("{}/scaling_pairs_not_estimator_limited", sname), 1);
        return;
    }
    let expected = 1e3f64.powf(1.0 / solver.est_order());
    let r = counts[1] / counts[0] / expected;
    rep.count(&format!("{}/scaling_pairs", sname), 1);
    rep.max(&format!("{}/scaling_ratio_over_expected", sname), r);
    rep.min(&format!("{}/scaling_ratio_over_expected", sname), r);
    if !(r <= K_SCALE) {
        rep.violation(
            &format!("{}/work-does-not-scale-with-the-estimator-order", sname),
            J::obj().set("solver", sname).set("problem", prob.to_json()).set("t0", t0).set("span", span).set("tol", tol1),
            format!("{} points at tol={:e}, {} points at tol/1000: ratio {:.1}, order-appropriate 1000^(1/{}) = {:.1} (allowed factor {})", counts[0], tol1, counts[1], counts[1] / counts[0], solver.est_order(), expected, K_SCALE),
        );
    } else {
        rep.nontrivial(CaseHash::new("c05-scaling").u(solver.idx() as u64).fs(&prob.a).fs(&prob.y0).f(t0).f(span).f(tol1).0);
    }
}

/// y' = -y^3, y(0) = 1: smooth, but not globally Lipschitz - a trial step far too long for it overflows its
/// stages. The trial has to be rejected like any other and the solve has to finish (D45: the overflowed stage
/// stayed in the stage matrix, 0 x inf made the next trial's state NaN, the step size became NaN and the
/// Runge-Kutta steppers returned Redo for ever). y(t) = 1/sqrt(1 + 2t).
struct CubicDecay;
impl Rhs<f64> for CubicDecay {
    fn dim(&self) -> usize {
        1
    }
    fn eval(&self, _t: f64, y: &[f64], out: &mut [f64]) {
        out[0] = -y[0] * y[0] * y[0];
    }
}

/// z1' = -w z2, z2' = w z1 over the complex field, started on an isotropic vector a (1, i): the solution stays a
/// multiple of (1, i), and so does every quasi-Newton shift s of the BDF solvers - for which the plain
/// transpose gives s^T s = 0 (D46: the rank-one update divided by it; Err(MaximumIterationsExceeded)).
struct Rotation {
    om: f64,
}
impl Rhs<C64> for Rotation {
    fn dim(&self) -> usize {
        2
    }
    fn eval(&self, _t: f64, y: &[C64], out: &mut [C64]) {
        out[0] = -y[1] * self.om;
        out[1] = y[0] * self.om;
    }
}

fn isotropic_case(rep: &mut Report, i: u64, seed: u64) {
    let mut rng = if i < 12 { Rng::for_case(4646, "c05-iso-anchor", i) } else { Rng::for_case(seed, "c05-iso", i) };
    let solver = Solver::ADAPTIVE[(i % 6) as usize];
    let om = rng.log10(-0.5, 0.5);
    let tol = rng.log10(-9.0, -3.0);
    let dt_max = dtmax_for(solver, om, tol, rng.r(0.5, 1.0));
    let cfg = Cfg { t0: rng.r(-1.0, 1.0), t1: 0.0, dt_min: dt_max * 1e-7, dt_max, tol };
    let cfg = Cfg { t1: cfg.t0 + dt_max * rng.log10(0.8, 1.8), ..cfg };
    let a = C64::from_polar(rng.log10(-1.0, 1.0), rng.r(0.0, 6.28));
    let y0 = if rng.bool() { vec![a, a * C64::new(0.0, 1.0)] } else { vec![a, a * C64::new(0.0, -1.0)] };
    let opts = Opts { budget: 3_000_000, max_items: 200_000, mode: if rng.bool() { DimMode::Static } else { DimMode::Dynamic }, ..Default::default() };
    let out = solve_complex(solver, &cfg, &y0, &Rotation { om }, &opts);
    rep.eval();
    rep.count(&format!("{}/isotropic_complex_solves", solver.name()), 1);
    let case = || J::obj().set("solver", solver.name()).set("problem", "z1' = -w z2, z2' = w z1, z(0) = a (1, +-i)").set("w", om).set("a", J::fs(&[a.re, a.im])).set("cfg", cfg.to_json()).set("derivative_calls", out.calls);
    if let Some((m, l)) = &out.panic {
        rep.violation(&format!("{}/panic", solver.name()), case(), format!("panicked: '{}' at {}", m, l));
        return;
    }
    if out.budget_hit {
        rep.violation(&format!("{}/work-budget-exhausted", solver.name()), case(), format!("still calling the derivative after {} calls", opts.budget));
        return;
    }
    let pts = out.ok_points();
    match pts.last() {
        Some((t, _)) if out.n_err() == 0 && *t == cfg.t1 => rep.nontrivial(CaseHash::new("c05-iso").u(solver.idx() as u64).f(om).f(cfg.t0).f(cfg.t1).f(tol).0),
        _ => rep.violation(&format!("{}/error-on-smooth-problem/isotropic-complex-state", solver.name()), case(), format!("the solve did not reach the end: {} points, {} Err items ({:?})", pts.len(), out.n_err(), out.items.iter().filter_map(|it| if let Item::Err(e) = it { Some(format!("{:?}", e)) } else { None }).next())),
    }
}

fn overflowing_trial_case(rep: &mut Report, i: u64, seed: u64) {
    let mut rng = if i < 8 { Rng::for_case(4545, "c05-cubic-anchor", i) } else { Rng::for_case(seed, "c05-cubic", i) };
    let solver = if i % 2 == 0 { Solver::RK45 } else { Solver::RK23 };
    let t1 = rng.log10(1.0, 2.5);
    let tol = rng.log10(-8.0, -4.0);
    let cfg = Cfg { t0: 0.0, t1, dt_min: 1e-7, dt_max: t1 * rng.log10(-0.3, 3.0).max(60.0 / t1), tol };
    let opts = Opts { budget: 400_000, max_items: 100_000, mode: if rng.bool() { DimMode::Static } else { DimMode::Dynamic }, ..Default::default() };
    let out = solve_real(solver, &cfg, &[1.0], &CubicDecay, &opts);
    rep.eval();
    rep.count(&format!("{}/cubic_decay_with_a_huge_step_cap", solver.name()), 1);
    let case = || J::obj().set("solver", solver.name()).set("problem", "y' = -y^3, y(0) = 1").set("cfg", cfg.to_json()).set("derivative_calls", out.calls);
    if let Some((m, l)) = &out.panic {
        rep.violation(&format!("{}/panic", solver.name()), case(), format!("panicked: '{}' at {}", m, l));
        return;
    }
    if out.budget_hit {
        rep.violation(&format!("{}/work-budget-exhausted", solver.name()), case(), format!("still calling the derivative after {} calls (the first trial step overflows; it must be rejected and shortened)", opts.budget));
        return;
    }
    let pts = out.ok_points();
    let exact = 1.0 / (1.0 + 2.0 * t1).sqrt();
    match pts.last() {
        Some((t, y)) if out.n_err() == 0 && *t == t1 => {
            rep.nontrivial(CaseHash::new("c05-cubic").u(solver.idx() as u64).f(t1).f(cfg.dt_max).f(tol).0);
            rep.max(&format!("{}/cubic_decay_calls", solver.name()), out.calls as f64);
            // (sanity only - accuracy is C04's statement: the tolerance is per unit step, the interval up to 300 long)
            if !((y[0] - exact).abs() <= 10.0 * tol * t1 + 1e-2 * exact) {
                rep.violation(&format!("{}/cubic-decay-end-value", solver.name()), case(), format!("y({}) = {:e}, exact {:e}", t1, y[0], exact));
            }
        }
        _ => rep.violation(&format!("{}/error-on-smooth-problem/cubic-decay", solver.name()), case(), format!("the solve did not reach the end: {} points, {} Err items", pts.len(), out.n_err())),
    }
}

pub fn stages(ctx: &Ctx) -> Vec<Stage> {
    let seed = ctx.seed;
    let mut st = vec![];
    st.push(Stage::new("complex-isotropic-state", ctx.tier.pick(600, 6_000), move |i, rep| isotropic_case(rep, i, seed)));
    st.push(Stage::new("overflowing-trial-step", ctx.tier.pick(400, 4_000), move |i, rep| overflowing_trial_case(rep, i, seed)));
    st.push(Stage::new("anchors", 6 * 6 * 2, move |i, rep| {
        let solver = Solver::ADAPTIVE[(i % 6) as usize];
        let flavour = ((i / 6) % 6) as usize;
        let k = i / 36;
        let mut rng = Rng::for_case(9090, "c05-anchor", flavour as u64 + 10 * k);
        let prob = IvpProblem::gen(&mut rng, 1 + (flavour + k as usize) % 4, flavour);
        let tol = if k == 0 { 1e-5 } else { 1e-8 };
        let dt_max = dtmax_for(solver, prob.lip, tol, 0.9) * 4.0;
        let cfg = Cfg { t0: -1.0, t1: -1.0 + dt_max * 30.0, dt_min: dt_max * 1e-7, dt_max, tol };
        run_case(rep, solver, &prob, &cfg, DimMode::Dynamic, "anchors");
    }));
    let n = ctx.tier.pick(36_000, 600_000);
    st.push(Stage::new("random", n, move |i, rep| {
        let mut rng = Rng::for_case(seed, "c05-random", i);
        let solver = Solver::ADAPTIVE[(i % 6) as usize];
        let n = 1 + rng.below(4);
        let fl = rng.below(6);
        let prob = IvpProblem::gen(&mut rng, n, fl);
        let mut cfg = gen_cfg(&mut rng, solver, prob.lip, (-9.0, -3.0), (0.5, 2.5));
        // the cap is often larger than the accuracy rule here: the solver, not the cap, must find the step
        let f = rng.log10(0.0, 1.0);
        cfg.dt_max *= f;
        cfg.dt_min = cfg.dt_max * rng.log10(-8.0, -6.0);
        cfg.t1 = cfg.t0 + cfg.dt_max * rng.log10(0.5, 2.3);
        if rng.chance(0.08) {
            // "far below what the method needs" has no lower end: minimum steps down to 1e-30 dt_max
            // (far below the spacing of the floats at the state and at the time)
            cfg.dt_min = cfg.dt_max * rng.log10(-30.0, -9.0);
            rep.count(&format!("{}/solves_with_minimum_step_below_1e-9_dt_max", solver.name()), 1);
        }
        if solver.is_rk() && rng.chance(0.03) {
            // no step cap at all (the span is fixed first): the first trial step is then infinite and
            // must be cut down by the controller like any other over-long step
            cfg.dt_max = f64::INFINITY;
            rep.count(&format!("{}/solves_without_a_step_cap", solver.name()), 1);
        }
        let mode = if rng.bool() { DimMode::Static } else { DimMode::Dynamic };
        run_case(rep, solver, &prob, &cfg, mode, "random");
    }));
    // BDF-tight stratum: where a wrong finite-difference Jacobian in the implicit solve becomes
    // observable at the API (SingularMatrix / MaximumIterationsExceeded)
    let nb = ctx.tier.pick(1_200, 12_000);
    st.push(Stage::new("bdf-tight", nb, move |i, rep| {
        let mut rng = Rng::for_case(seed, "c05-bdf-tight", i);
        let solver = if i % 2 == 0 { Solver::BDF2 } else { Solver::BDF6 };
        let n = 2 + rng.below(3);
        let fl = *rng.pick(&[0usize, 1, 2, 5]);
        let prob = IvpProblem::gen(&mut rng, n, fl);
        let tol = rng.log10(-10.0, -9.0);
        let dt_max = dtmax_for(solver, prob.lip, tol, rng.r(0.5, 1.0));
        let t0 = rng.r(-2.0, 2.0);
        let cfg = Cfg { t0, t1: t0 + dt_max * rng.log10(1.0, 2.0), dt_min: dt_max * 1e-7, dt_max, tol };
        run_case(rep, solver, &prob, &cfg, DimMode::Dynamic, "bdf-tight");
    }));
    // "end just past a step": the ending time is placed a sliver (1e-12 .. 1e-6 dt_max) beyond a time
    // at which the solver would have produced a point anyway, so the clipped final step is far
    // shorter than dt_min. It must simply be taken. (Round-3 seeded change C05-m9 turned exactly this
    // coincidence, probability ~ dt_min/step per random solve, into MinimumTimeDeltaExceeded.)
    let ncx = ctx.tier.pick(1_800, 36_000);
    st.push(Stage::new("complex", ncx, move |i, rep| {
        let mut rng = Rng::for_case(seed, "c05-complex", i);
        let solver = Solver::ADAPTIVE[(i % 6) as usize];
        let n = 2 * (1 + rng.below(2));
        let fl = rng.below(6);
        let prob = IvpProblem::gen(&mut rng, n, fl);
        let mut cfg = gen_cfg(&mut rng, solver, prob.lip, (-9.0, -3.0), (0.5, 2.5));
        let f = rng.log10(0.0, 1.0);
        cfg.dt_max *= f;
        cfg.dt_min = cfg.dt_max * rng.log10(-8.0, -6.0);
        cfg.t1 = cfg.t0 + cfg.dt_max * rng.log10(0.5, 2.3);
        let mode = if rng.bool() { DimMode::Static } else { DimMode::Dynamic };
        run_case_field(rep, solver, &prob, &cfg, mode, "complex", true);
    }));
    let nsl = ctx.tier.pick(3_000, 60_000);
    st.push(Stage::new("end-just-past-a-step", nsl, move |i, rep| {
        let mut rng = Rng::for_case(seed, "c05-sliver", i);
        let solver = Solver::ADAPTIVE[(i % 6) as usize];
        let n = 1 + rng.below(3);
        let fl = rng.below(4);
        let prob = IvpProblem::gen(&mut rng, n, fl);
        let mut cfg = gen_cfg(&mut rng, solver, prob.lip, (-8.0, -3.0), (0.8, 1.6));
        cfg.dt_max *= rng.log10(0.0, 0.7);
        cfg.dt_min = cfg.dt_max * rng.log10(-8.0, -6.0);
        cfg.t1 = cfg.t0 + cfg.dt_max * rng.r(6.0, 40.0);
        let probe = solve_real(solver, &cfg, &prob.y0, &prob, &Opts { budget: 2_000_000, max_items: 20_000, mode: DimMode::Dynamic, ..Default::default() });
        rep.eval();
        let pts = probe.ok_points();
        if !probe.clean() || pts.len() < 4 {
            rep.count("sliver/probe_not_usable", 1);
            return;
        }
        let k = 1 + rng.below(pts.len() - 2);
        let tk = pts[k].0;
        let mut t1 = tk + cfg.dt_max * rng.log10(-12.0, -6.0);
        if !(t1 > tk) {
            t1 = f64::from_bits(tk.to_bits().wrapping_add(if tk > 0.0 { 1 } else { u64::MAX }));
            if !(t1 > tk) {
                t1 = tk + tk.abs() * 4.0 * f64::EPSILON + f64::MIN_POSITIVE;
            }
        }
        let cfg2 = Cfg { t1, ..cfg.clone() };
        rep.count(&format!("{}/sliver_cases", solver.name()), 1);
        run_case(rep, solver, &prob, &cfg2, DimMode::Dynamic, "sliver");
    }));
    let ns = ctx.tier.pick(1_200, 12_000);
    st.push(Stage::new("scaling", ns, move |i, rep| {
        let mut rng = Rng::for_case(seed, "c05-scaling", i);
        let solver = Solver::ADAPTIVE[(i % 6) as usize];
        let n = 1 + rng.below(3);
        let fl = *rng.pick(&[0usize, 1]); // forced (non-autonomous) members
        let prob = IvpProblem::gen(&mut rng, n, fl);
        let t0 = rng.r(-2.0, 2.0);
        let span = rng.r(4.0, 12.0) * if solver.high_order() { 3.0 } else { 1.0 } / prob.lip;
        let tol1 = rng.log10(-6.0, -4.5);
        scaling_case(rep, solver, &prob, t0, span, tol1);
    }));
    st
}

pub fn thresholds(ctx: &Ctx, rep: &Report) -> Vec<Threshold> {
    let mut t = vec![];
    for sv in Solver::ADAPTIVE {
        t.push(Threshold { what: format!("{}: complex solves started on an isotropic vector a (1, +-i)", sv.name()), required: ctx.tier.pick(90.0, 900.0), observed: rep.counter(&format!("{}/isotropic_complex_solves", sv.name())) as f64 });
    }
    for sv in [Solver::RK45, Solver::RK23] {
        t.push(Threshold { what: format!("{}: cubic decay with a step cap far beyond what the problem tolerates", sv.name()), required: ctx.tier.pick(200.0, 2_000.0), observed: rep.counter(&format!("{}/cubic_decay_with_a_huge_step_cap", sv.name())) as f64 });
    }
    for s in Solver::ADAPTIVE {
        t.push(Threshold { what: format!("{}: solves with step variation >= 2x", s.name()), required: ctx.tier.pick(20.0, 1_000.0), observed: rep.counter(&format!("{}/solves_with_step_variation", s.name())) as f64 });
        t.push(Threshold { what: format!("{}: solves over Complex<f64>", s.name()), required: ctx.tier.pick(200.0, 4_000.0), observed: rep.counter(&format!("complex/{}/solves", s.name())) as f64 });
        t.push(Threshold { what: format!("{}: estimator-limited tolerance pairs in the work-scaling stage", s.name()), required: ctx.tier.pick(30.0, 600.0), observed: rep.counter(&format!("{}/scaling_pairs", s.name())) as f64 });
    }
    t
}
