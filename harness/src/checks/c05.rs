//! C05 — adaptive IVP solvers finish smooth problems with order-appropriate work.
//! Work accounting: the derivative closure counts its own invocations and enforces a hard budget,
//! so a non-terminating solve is an observation, not a hang.

use crate::gen::ivp::*;
use crate::ivpdrv::*;
use crate::json::J;
use crate::report::*;
use crate::rng::{CaseHash, Rng};

/// G_s: points <= G_s (T L tol^(-1/p) + T/dt_max) + order + 2   (observed maxima in DESIGN.md C05)
pub fn g_const(s: Solver) -> f64 {
    match s {
        // observed maxima of points / (T L tol^(-1/p) + T/dt_max) over 608 000 solves (thorough, seed 1)
        Solver::RK45 => 5.0,   // 0.48
        Solver::RK23 => 5.0,   // 0.45
        Solver::Adams5 => 8.0, // 1.01
        Solver::Adams3 => 5.0, // 0.55
        Solver::BDF6 => 17.0,  // 1.33
        Solver::BDF2 => 15.0,  // 2.93
        Solver::Euler => f64::NAN,
    }
}

/// kappa_s: calls <= kappa_s (points + 10)   (the +10 points pay for rejected start-ups / first trials on short paths)
pub fn kappa(s: Solver, dim: usize) -> f64 {
    match s {
        // observed maxima of calls / (points + 10) over 608 000 solves
        Solver::RK45 => 20.0,  // 9.1 (1.5 trials per accepted step when the cap is 10x the accuracy rule)
        Solver::RK23 => 10.0,  // 4.6
        Solver::Adams5 => 15.0, // 6.9 (every step growth costs a 4-step RK4 restart)
        Solver::Adams3 => 6.0, // 2.9
        // two implicit solves per step: 2d finite-difference calls + Newton + quasi-Newton iterations each
        Solver::BDF6 | Solver::BDF2 => 3.0 * (2.0 * dim as f64 + 8.0), // 0.66 of 2(2d+8)
        Solver::Euler => f64::NAN,
    }
}

pub fn meta() -> CheckMeta {
    CheckMeta {
        id: "C05",
        level: "exploration",
        rule: "cases: 6 adaptive solvers x G-ivp (incl. at-rest and relaxing members, dim 1-4) x tol 1e-9..1e-3 x dt_min <= 1e-6 dt_max, plus a BDF-tight stratum (dim >= 2, tol 1e-10..1e-9). Monitors: no Err item, path ends at t_end, points <= G_s (T L tol^(-1/p) + T/dt_max) + order + 2, derivative calls <= kappa_s (points + 10), hard budget 20x the implied total. A solve is non-trivial when it has >= 20 points and its step varied by >= 2x (growth or rejection seen); distinct = hash of (solver, problem, configuration)".into(),
        assumptions: vec![
            "L is the generator's Lipschitz/time-scale bound of the problem; the work bound is split into a point-count factor G_s and a calls-per-point factor kappa_s (DESIGN.md C05)".into(),
            "budgets are counted in derivative invocations by the user closure itself, never in wall-clock time".into(),
        ],
        exhaustive: false,
        stuck_is_violation: true,
    }
}

fn implied_points(solver: Solver, cfg: &Cfg, lip: f64) -> f64 {
    let t = cfg.span();
    g_const(solver) * (t * lip * cfg.tol.powf(-1.0 / solver.est_order()) + t / cfg.dt_max) + solver.history() as f64 + 3.0
}

fn run_case(rep: &mut Report, solver: Solver, prob: &IvpProblem, cfg: &Cfg, mode: DimMode, stratum: &str) {
    let sname = solver.name();
    let pts_bound = implied_points(solver, cfg, prob.lip);
    let kap = kappa(solver, prob.n);
    let implied_calls = kap * (pts_bound + 10.0);
    let budget = (20.0 * implied_calls) as u64;
    let opts = Opts { budget, max_items: (20.0 * pts_bound) as usize + 100, mode, ..Default::default() };
    let out = solve_real(solver, cfg, &prob.y0, prob, &opts);
    rep.eval();
    rep.count(&format!("{}/solves", sname), 1);
    rep.count(&format!("{}/{}/solves", stratum, sname), 1);
    let case = || J::obj().set("solver", sname).set("mode", format!("{:?}", mode)).set("stratum", stratum).set("cfg", cfg.to_json()).set("problem", prob.to_json());
    if let Some((m, l)) = &out.panic {
        rep.violation(&format!("{}/panic", sname), case(), format!("solver panicked: '{}' at {}", m, l));
        return;
    }
    if out.build_err.is_some() {
        rep.violation(&format!("{}/valid-config-rejected", sname), case(), format!("{:?}", out.build_err));
        return;
    }
    let pts = out.ok_points();
    if out.budget_hit || out.truncated {
        rep.violation(
            &format!("{}/work-budget-exhausted", sname),
            case(),
            format!(
                "hard budget hit: {} derivative calls / {} points without finishing (order-appropriate total is about {:.0} calls, {:.0} points); last time reached {:?} of [{:e}, {:e}]",
                out.calls,
                pts.len(),
                implied_calls,
                pts_bound,
                pts.last().map(|p| p.0),
                cfg.t0,
                cfg.t1
            ),
        );
        return;
    }
    if let Some(e) = out.first_err() {
        rep.violation(
            &format!("{}/error-on-smooth-problem/{}", sname, match e {
                ErrKind::MinDt => "MinimumTimeDeltaExceeded",
                ErrKind::MaxIter => "MaximumIterationsExceeded",
                ErrKind::Singular => "SingularMatrix",
                _ => "other",
            }),
            case(),
            format!("solve reported {} after {} points and {} derivative calls (dt_min = {:e} dt_max)", e.short(), pts.len(), out.calls, cfg.dt_min / cfg.dt_max),
        );
        return;
    }
    // completed: must have reached the end (exact end time is C01's statement; here: not early)
    match pts.last() {
        None => {
            rep.violation(&format!("{}/stopped-early", sname), case(), "solve ended without error and without any point".into());
            return;
        }
        Some((t, _)) => {
            if !(*t >= cfg.t1 - 1e-9 * cfg.span()) {
                rep.violation(&format!("{}/stopped-early", sname), case(), format!("solve ended without error at t={:e}, before the ending time {:e}", t, cfg.t1));
                return;
            }
        }
    }
    let npts = pts.len() as f64;
    let r1 = npts / pts_bound * g_const(solver);
    rep.max(&format!("{}/points_ratio_G", sname), r1);
    rep.max(&format!("{}/points_over_bound", sname), npts / pts_bound);
    if !(npts <= pts_bound) {
        rep.violation(
            &format!("{}/too-many-points", sname),
            case(),
            format!("{} points for T={:.3e}, L={:.3}, tol={:.2e}, dt_max={:.3e}: bound {:.0} (G={})", npts, cfg.span(), prob.lip, cfg.tol, cfg.dt_max, pts_bound, g_const(solver)),
        );
        return;
    }
    let cpp = out.calls as f64 / (npts + 10.0);
    rep.max(&format!("{}/calls_per_point", sname), cpp);
    rep.max(&format!("{}/calls_per_point_over_kappa", sname), cpp / kap);
    if !(out.calls as f64 <= kap * (npts + 10.0)) {
        rep.violation(
            &format!("{}/too-many-calls-per-point", sname),
            case(),
            format!("{} derivative calls for {} points ({:.1} per point, bound {} x (points + 10))", out.calls, npts, out.calls as f64 / npts, kap),
        );
        return;
    }
    rep.count(&format!("{}/completed", sname), 1);
    // non-trivial: >= 20 points whose step varied by >= 2x
    if pts.len() >= 20 {
        let mut p = cfg.t0;
        let mut hmin = f64::INFINITY;
        let mut hmax: f64 = 0.0;
        for (i, (t, _)) in pts.iter().enumerate() {
            if i + 1 < pts.len() {
                hmin = hmin.min(*t - p);
                hmax = hmax.max(*t - p);
            }
            p = *t;
        }
        if hmax >= 2.0 * hmin {
            rep.count(&format!("{}/solves_with_step_variation", sname), 1);
            let h = CaseHash::new("c05").u(solver.idx() as u64).fs(&prob.a).fs(&prob.y0).f(cfg.t0).f(cfg.t1).f(cfg.dt_max).f(cfg.tol);
            rep.nontrivial(h.0);
            if rep.wants_sample() {
                rep.sample(case().set("points", pts.len()).set("derivative_calls", out.calls).set("points_bound", pts_bound).set("step_min", hmin).set("step_max", hmax));
            }
        }
    }
}

pub fn stages(ctx: &Ctx) -> Vec<Stage> {
    let seed = ctx.seed;
    let mut st = vec![];
    st.push(Stage::new("anchors", 6 * 6 * 2, move |i, rep| {
        let solver = Solver::ADAPTIVE[(i % 6) as usize];
        let flavour = ((i / 6) % 6) as usize;
        let k = i / 36;
        let mut rng = Rng::for_case(9090, "c05-anchor", flavour as u64 + 10 * k);
        let prob = IvpProblem::gen(&mut rng, 1 + (flavour + k as usize) % 4, flavour);
        let tol = if k == 0 { 1e-5 } else { 1e-8 };
        let dt_max = dtmax_for(solver, prob.lip, tol, 0.9) * 4.0;
        let cfg = Cfg { t0: -1.0, t1: -1.0 + dt_max * 30.0, dt_min: dt_max * 1e-7, dt_max, tol };
        run_case(rep, solver, &prob, &cfg, DimMode::Dynamic, "anchors");
    }));
    let n = ctx.tier.pick(12_000, 600_000);
    st.push(Stage::new("random", n, move |i, rep| {
        let mut rng = Rng::for_case(seed, "c05-random", i);
        let solver = Solver::ADAPTIVE[(i % 6) as usize];
        let n = 1 + rng.below(4);
        let fl = rng.below(6);
        let prob = IvpProblem::gen(&mut rng, n, fl);
        let mut cfg = gen_cfg(&mut rng, solver, prob.lip, (-9.0, -3.0), (0.5, 2.5));
        // the cap is often larger than the accuracy rule here: the solver, not the cap, must find the step
        let f = rng.log10(0.0, 1.0);
        cfg.dt_max *= f;
        cfg.dt_min = cfg.dt_max * rng.log10(-8.0, -6.0);
        cfg.t1 = cfg.t0 + cfg.dt_max * rng.log10(0.5, 2.3);
        let mode = if rng.bool() { DimMode::Static } else { DimMode::Dynamic };
        run_case(rep, solver, &prob, &cfg, mode, "random");
    }));
    // BDF-tight stratum: where a wrong finite-difference Jacobian in the implicit solve becomes
    // observable at the API (SingularMatrix / MaximumIterationsExceeded)
    let nb = ctx.tier.pick(400, 8_000);
    st.push(Stage::new("bdf-tight", nb, move |i, rep| {
        let mut rng = Rng::for_case(seed, "c05-bdf-tight", i);
        let solver = if i % 2 == 0 { Solver::BDF2 } else { Solver::BDF6 };
        let n = 2 + rng.below(3);
        let fl = *rng.pick(&[0usize, 1, 2, 5]);
        let prob = IvpProblem::gen(&mut rng, n, fl);
        let tol = rng.log10(-10.0, -9.0);
        let dt_max = dtmax_for(solver, prob.lip, tol, rng.r(0.5, 1.0));
        let t0 = rng.r(-2.0, 2.0);
        let cfg = Cfg { t0, t1: t0 + dt_max * rng.log10(1.0, 2.0), dt_min: dt_max * 1e-7, dt_max, tol };
        run_case(rep, solver, &prob, &cfg, DimMode::Dynamic, "bdf-tight");
    }));
    st
}

pub fn thresholds(ctx: &Ctx, rep: &Report) -> Vec<Threshold> {
    let mut t = vec![];
    for s in Solver::ADAPTIVE {
        t.push(Threshold { what: format!("{}: solves with step variation >= 2x", s.name()), required: ctx.tier.pick(20.0, 1_000.0), observed: rep.counter(&format!("{}/solves_with_step_variation", s.name())) as f64 });
    }
    t
}
