//! SplitMix64 — every random choice of every workload derives from VERIF_SEED through this.

#[derive(Clone, Debug)]
pub struct Rng(pub u64);

impl Rng {
    pub fn new(seed: u64) -> Self {
        Rng(seed)
    }
    /// Independent stream for (seed, check tag, case index).
    pub fn for_case(seed: u64, tag: &str, idx: u64) -> Self {
        let mut h: u64 = 0xcbf29ce484222325;
        for b in tag.bytes() {
            h ^= b as u64;
            h = h.wrapping_mul(0x100000001b3);
        }
        let mut r = Rng(seed.wrapping_mul(0x9E3779B97F4A7C15) ^ h ^ idx.wrapping_mul(0xD1B54A32D192ED03));
        r.next();
        r.next();
        r
    }
    pub fn next(&mut self) -> u64 {
        self.0 = self.0.wrapping_add(0x9E3779B97F4A7C15);
        let mut z = self.0;
        z = (z ^ (z >> 30)).wrapping_mul(0xBF58476D1CE4E5B9);
        z = (z ^ (z >> 27)).wrapping_mul(0x94D049BB133111EB);
        z ^ (z >> 31)
    }
    /// uniform in [0,1)
    pub fn f(&mut self) -> f64 {
        (self.next() >> 11) as f64 / (1u64 << 53) as f64
    }
    pub fn r(&mut self, a: f64, b: f64) -> f64 {
        a + (b - a) * self.f()
    }
    /// 10^u, u uniform in [a,b]
    pub fn log10(&mut self, a: f64, b: f64) -> f64 {
        10f64.powf(self.r(a, b))
    }
    /// uniform integer in [0,n)
    pub fn below(&mut self, n: usize) -> usize {
        if n == 0 {
            0
        } else {
            (self.next() % n as u64) as usize
        }
    }
    /// uniform integer in [a,b]
    pub fn int(&mut self, a: i64, b: i64) -> i64 {
        a + (self.next() % ((b - a + 1) as u64)) as i64
    }
    pub fn bool(&mut self) -> bool {
        self.next() & 1 == 1
    }
    pub fn chance(&mut self, p: f64) -> bool {
        self.f() < p
    }
    pub fn sign(&mut self) -> f64 {
        if self.bool() {
            1.0
        } else {
            -1.0
        }
    }
    pub fn pick<'a, T>(&mut self, xs: &'a [T]) -> &'a T {
        &xs[self.below(xs.len())]
    }
    /// approximately standard normal (sum of 12 uniforms)
    pub fn normal(&mut self) -> f64 {
        let mut s = 0.0;
        for _ in 0..12 {
            s += self.f();
        }
        s - 6.0
    }
    pub fn shuffle<T>(&mut self, xs: &mut [T]) {
        for i in (1..xs.len()).rev() {
            let j = self.below(i + 1);
            xs.swap(i, j);
        }
    }
}

/// FNV-style hash of a sequence of f64 bit patterns / integers, for distinct-case counting.
#[derive(Clone, Copy)]
pub struct CaseHash(pub u64);
impl CaseHash {
    pub fn new(tag: &str) -> Self {
        let mut h = CaseHash(0xcbf29ce484222325);
        for b in tag.bytes() {
            h.0 ^= b as u64;
            h.0 = h.0.wrapping_mul(0x100000001b3);
        }
        h
    }
    pub fn u(mut self, v: u64) -> Self {
        self.0 ^= v;
        self.0 = self.0.wrapping_mul(0x100000001b3);
        self.0 ^= self.0 >> 29;
        self
    }
    pub fn f(self, v: f64) -> Self {
        self.u(v.to_bits())
    }
    pub fn fs(mut self, vs: &[f64]) -> Self {
        for v in vs {
            self = self.f(*v);
        }
        self
    }
    pub fn s(mut self, s: &str) -> Self {
        for b in s.bytes() {
            self = self.u(b as u64);
        }
        self
    }
}
