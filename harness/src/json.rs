//! Minimal JSON value, writer and parser (no external crates are available to add).

use std::fmt::Write;

#[derive(Clone, Debug, PartialEq)]
pub enum J {
    Null,
    Bool(bool),
    Int(i64),
    Num(f64),
    Str(String),
    Arr(Vec<J>),
    Obj(Vec<(String, J)>),
}

impl J {
    pub fn obj() -> J {
        J::Obj(vec![])
    }
    pub fn set(mut self, k: &str, v: impl Into<J>) -> J {
        if let J::Obj(ref mut o) = self {
            let v = v.into();
            if let Some(e) = o.iter_mut().find(|(kk, _)| kk == k) {
                e.1 = v;
            } else {
                o.push((k.to_string(), v));
            }
        }
        self
    }
    pub fn put(&mut self, k: &str, v: impl Into<J>) {
        if let J::Obj(ref mut o) = self {
            let v = v.into();
            if let Some(e) = o.iter_mut().find(|(kk, _)| kk == k) {
                e.1 = v;
            } else {
                o.push((k.to_string(), v));
            }
        }
    }
    pub fn get(&self, k: &str) -> Option<&J> {
        match self {
            J::Obj(o) => o.iter().find(|(kk, _)| kk == k).map(|(_, v)| v),
            _ => None,
        }
    }
    pub fn as_str(&self) -> Option<&str> {
        match self {
            J::Str(s) => Some(s),
            _ => None,
        }
    }
    pub fn as_f64(&self) -> Option<f64> {
        match self {
            J::Num(x) => Some(*x),
            J::Int(i) => Some(*i as f64),
            J::Str(s) => s.parse().ok(),
            _ => None,
        }
    }
    pub fn as_i64(&self) -> Option<i64> {
        match self {
            J::Int(i) => Some(*i),
            J::Num(x) => Some(*x as i64),
            _ => None,
        }
    }
    pub fn as_arr(&self) -> Option<&Vec<J>> {
        match self {
            J::Arr(a) => Some(a),
            _ => None,
        }
    }
    pub fn fs(xs: &[f64]) -> J {
        J::Arr(xs.iter().map(|x| J::from(*x)).collect())
    }
    pub fn to_string_pretty(&self) -> String {
        let mut s = String::new();
        self.write(&mut s, 0, true);
        s
    }
    pub fn to_string_compact(&self) -> String {
        let mut s = String::new();
        self.write(&mut s, 0, false);
        s
    }
    fn write(&self, out: &mut String, ind: usize, pretty: bool) {
        match self {
            J::Null => out.push_str("null"),
            J::Bool(b) => out.push_str(if *b { "true" } else { "false" }),
            J::Int(i) => {
                let _ = write!(out, "{}", i);
            }
            J::Num(x) => {
                if x.is_finite() {
                    // {:e} round-trips f64 exactly; keep plain integers readable
                    if *x == x.trunc() && x.abs() < 1e15 {
                        let _ = write!(out, "{:.1}", x);
                    } else {
                        let _ = write!(out, "{:e}", x);
                    }
                } else {
                    // JSON has no NaN/inf: write as string
                    let _ = write!(out, "\"{}\"", x);
                }
            }
            J::Str(s) => write_str(out, s),
            J::Arr(a) => {
                // arrays of scalars stay on one line
                let scalar = a.iter().all(|v| !matches!(v, J::Arr(_) | J::Obj(_)));
                out.push('[');
                for (i, v) in a.iter().enumerate() {
                    if i > 0 {
                        out.push(',');
                        if scalar {
                            out.push(' ');
                        }
                    }
                    if pretty && !scalar {
                        out.push('\n');
                        push_ind(out, ind + 1);
                    }
                    v.write(out, ind + 1, pretty);
                }
                if pretty && !scalar && !a.is_empty() {
                    out.push('\n');
                    push_ind(out, ind);
                }
                out.push(']');
            }
            J::Obj(o) => {
                out.push('{');
                for (i, (k, v)) in o.iter().enumerate() {
                    if i > 0 {
                        out.push(',');
                    }
                    if pretty {
                        out.push('\n');
                        push_ind(out, ind + 1);
                    }
                    write_str(out, k);
                    out.push(':');
                    if pretty {
                        out.push(' ');
                    }
                    v.write(out, ind + 1, pretty);
                }
                if pretty && !o.is_empty() {
                    out.push('\n');
                    push_ind(out, ind);
                }
                out.push('}');
            }
        }
    }
}

fn push_ind(out: &mut String, n: usize) {
    for _ in 0..n {
        out.push_str("  ");
    }
}

fn write_str(out: &mut String, s: &str) {
    out.push('"');
    for c in s.chars() {
        match c {
            '"' => out.push_str("\\\""),
            '\\' => out.push_str("\\\\"),
            '\n' => out.push_str("\\n"),
            '\r' => out.push_str("\\r"),
            '\t' => out.push_str("\\t"),
            c if (c as u32) < 0x20 => {
                let _ = write!(out, "\\u{:04x}", c as u32);
            }
            c => out.push(c),
        }
    }
    out.push('"');
}

impl From<bool> for J {
    fn from(v: bool) -> J {
        J::Bool(v)
    }
}
impl From<i64> for J {
    fn from(v: i64) -> J {
        J::Int(v)
    }
}
impl From<i32> for J {
    fn from(v: i32) -> J {
        J::Int(v as i64)
    }
}
impl From<u64> for J {
    fn from(v: u64) -> J {
        J::Int(v as i64)
    }
}
impl From<usize> for J {
    fn from(v: usize) -> J {
        J::Int(v as i64)
    }
}
impl From<f64> for J {
    fn from(v: f64) -> J {
        J::Num(v)
    }
}
impl From<&str> for J {
    fn from(v: &str) -> J {
        J::Str(v.to_string())
    }
}
impl From<String> for J {
    fn from(v: String) -> J {
        J::Str(v)
    }
}
impl From<Vec<J>> for J {
    fn from(v: Vec<J>) -> J {
        J::Arr(v)
    }
}
impl From<&[f64]> for J {
    fn from(v: &[f64]) -> J {
        J::fs(v)
    }
}
impl From<&Vec<f64>> for J {
    fn from(v: &Vec<f64>) -> J {
        J::fs(v)
    }
}
impl From<Vec<f64>> for J {
    fn from(v: Vec<f64>) -> J {
        J::fs(&v)
    }
}

// ---------------------------------------------------------------- parser

pub fn parse(src: &str) -> Result<J, String> {
    let b = src.as_bytes();
    let mut p = 0usize;
    let v = parse_val(b, &mut p)?;
    skip_ws(b, &mut p);
    if p != b.len() {
        return Err(format!("trailing data at {}", p));
    }
    Ok(v)
}

fn skip_ws(b: &[u8], p: &mut usize) {
    while *p < b.len() && (b[*p] as char).is_ascii_whitespace() {
        *p += 1;
    }
}

fn parse_val(b: &[u8], p: &mut usize) -> Result<J, String> {
    skip_ws(b, p);
    if *p >= b.len() {
        return Err("unexpected end".into());
    }
    match b[*p] {
        b'{' => {
            *p += 1;
            let mut o = vec![];
            loop {
                skip_ws(b, p);
                if *p < b.len() && b[*p] == b'}' {
                    *p += 1;
                    break;
                }
                let k = match parse_val(b, p)? {
                    J::Str(s) => s,
                    _ => return Err("object key must be a string".into()),
                };
                skip_ws(b, p);
                if *p >= b.len() || b[*p] != b':' {
                    return Err(format!("expected ':' at {}", p));
                }
                *p += 1;
                let v = parse_val(b, p)?;
                o.push((k, v));
                skip_ws(b, p);
                if *p < b.len() && b[*p] == b',' {
                    *p += 1;
                } else if *p < b.len() && b[*p] == b'}' {
                    *p += 1;
                    break;
                } else {
                    return Err(format!("expected ',' or '}}' at {}", p));
                }
            }
            Ok(J::Obj(o))
        }
        b'[' => {
            *p += 1;
            let mut a = vec![];
            loop {
                skip_ws(b, p);
                if *p < b.len() && b[*p] == b']' {
                    *p += 1;
                    break;
                }
                a.push(parse_val(b, p)?);
                skip_ws(b, p);
                if *p < b.len() && b[*p] == b',' {
                    *p += 1;
                } else if *p < b.len() && b[*p] == b']' {
                    *p += 1;
                    break;
                } else {
                    return Err(format!("expected ',' or ']' at {}", p));
                }
            }
            Ok(J::Arr(a))
        }
        b'"' => {
            *p += 1;
            let mut s = Vec::new();
            while *p < b.len() && b[*p] != b'"' {
                if b[*p] == b'\\' {
                    *p += 1;
                    if *p >= b.len() {
                        return Err("bad escape".into());
                    }
                    match b[*p] {
                        b'n' => s.push(b'\n'),
                        b't' => s.push(b'\t'),
                        b'r' => s.push(b'\r'),
                        b'u' => {
                            let hex = std::str::from_utf8(&b[*p + 1..*p + 5]).map_err(|e| e.to_string())?;
                            let c = u32::from_str_radix(hex, 16).map_err(|e| e.to_string())?;
                            let ch = char::from_u32(c).unwrap_or('?');
                            let mut buf = [0u8; 4];
                            s.extend_from_slice(ch.encode_utf8(&mut buf).as_bytes());
                            *p += 4;
                        }
                        c => s.push(c),
                    }
                } else {
                    s.push(b[*p]);
                }
                *p += 1;
            }
            *p += 1;
            Ok(J::Str(String::from_utf8(s).map_err(|e| e.to_string())?))
        }
        b't' if b[*p..].starts_with(b"true") => {
            *p += 4;
            Ok(J::Bool(true))
        }
        b'f' if b[*p..].starts_with(b"false") => {
            *p += 5;
            Ok(J::Bool(false))
        }
        b'n' if b[*p..].starts_with(b"null") => {
            *p += 4;
            Ok(J::Null)
        }
        _ => {
            let st = *p;
            while *p < b.len() && matches!(b[*p], b'0'..=b'9' | b'-' | b'+' | b'.' | b'e' | b'E') {
                *p += 1;
            }
            let t = std::str::from_utf8(&b[st..*p]).map_err(|e| e.to_string())?;
            if let Ok(i) = t.parse::<i64>() {
                Ok(J::Int(i))
            } else {
                t.parse::<f64>().map(J::Num).map_err(|e| format!("bad number '{}': {}", t, e))
            }
        }
    }
}
