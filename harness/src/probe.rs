//! Probe support shared by all instrumented callbacks: per-thread evaluation counter, hard
//! evaluation budget (logical units, never wall-clock), budget sentinels, and guarded calls
//! that turn library panics into observations.

use std::any::Any;
use std::cell::{Cell, RefCell};
use std::panic::{self, AssertUnwindSafe};
use std::sync::atomic::{AtomicU64, Ordering};
use std::sync::Arc;

thread_local! {
    static CALLS: Cell<u64> = Cell::new(0);
    static BUDGET: Cell<u64> = Cell::new(u64::MAX);
    static EXCEEDED: Cell<bool> = Cell::new(false);
    static SLOT: RefCell<Option<Arc<AtomicU64>>> = RefCell::new(None);
    static LAST_PANIC: RefCell<Option<(String, String)>> = RefCell::new(None);
}

/// Panic payload used by callbacks that cannot return `Err` when the budget is exhausted.
pub struct BudgetSentinel;

/// Error type returned by callbacks that can return `Err` when the budget is exhausted.
#[derive(Debug)]
pub struct BudgetError;
impl std::fmt::Display for BudgetError {
    fn fmt(&self, f: &mut std::fmt::Formatter) -> std::fmt::Result {
        write!(f, "verif: evaluation budget exhausted")
    }
}
impl std::error::Error for BudgetError {}

pub fn install_panic_hook() {
    panic::set_hook(Box::new(|info| {
        let loc = info.location().map(|l| format!("{}:{}", l.file(), l.line())).unwrap_or_default();
        let msg = if let Some(s) = info.payload().downcast_ref::<&str>() {
            s.to_string()
        } else if let Some(s) = info.payload().downcast_ref::<String>() {
            s.clone()
        } else if info.payload().downcast_ref::<BudgetSentinel>().is_some() {
            "verif budget sentinel".to_string()
        } else {
            "non-string panic payload".to_string()
        };
        LAST_PANIC.with(|p| *p.borrow_mut() = Some((msg, loc)));
    }));
}

pub fn take_last_panic() -> Option<(String, String)> {
    LAST_PANIC.with(|p| p.borrow_mut().take())
}

pub fn set_slot(slot: Arc<AtomicU64>) {
    SLOT.with(|s| *s.borrow_mut() = Some(slot));
}

/// Start a new execution: reset the counter and arm the budget.
pub fn begin(budget: u64) {
    CALLS.with(|c| c.set(0));
    BUDGET.with(|b| b.set(budget));
    EXCEEDED.with(|e| e.set(false));
}

/// Count one callback invocation. Returns false when the budget is exhausted.
#[inline]
pub fn tick() -> bool {
    let n = CALLS.with(|c| {
        let n = c.get() + 1;
        c.set(n);
        n
    });
    if n & 0xff == 0 {
        SLOT.with(|s| {
            if let Some(a) = s.borrow().as_ref() {
                a.fetch_add(256, Ordering::Relaxed);
            }
        });
    }
    if n > BUDGET.with(|b| b.get()) {
        EXCEEDED.with(|e| e.set(true));
        false
    } else {
        true
    }
}

/// Count one callback invocation; panic with the sentinel when the budget is exhausted.
#[inline]
pub fn tick_or_panic() {
    if !tick() {
        panic::panic_any(BudgetSentinel);
    }
}

pub fn calls() -> u64 {
    CALLS.with(|c| c.get())
}

pub fn exceeded() -> bool {
    EXCEEDED.with(|e| e.get())
}

/// Outcome of a guarded library call.
pub enum Guarded<T> {
    Ok(T),
    /// the evaluation budget was exhausted (sentinel panic)
    Budget,
    /// the library panicked: (message, location)
    Panic(String, String),
}

impl<T> Guarded<T> {
    pub fn is_panic(&self) -> bool {
        matches!(self, Guarded::Panic(..))
    }
}

/// Run `f`, converting panics into values. A sentinel panic is reported as `Budget`.
pub fn guard<T>(f: impl FnOnce() -> T) -> Guarded<T> {
    let _ = take_last_panic();
    match panic::catch_unwind(AssertUnwindSafe(f)) {
        Ok(v) => Guarded::Ok(v),
        Err(payload) => classify_payload(payload),
    }
}

fn classify_payload<T>(payload: Box<dyn Any + Send>) -> Guarded<T> {
    if payload.downcast_ref::<BudgetSentinel>().is_some() {
        let _ = take_last_panic();
        return Guarded::Budget;
    }
    let (msg, loc) = take_last_panic().unwrap_or_else(|| {
        let m = if let Some(s) = payload.downcast_ref::<&str>() {
            s.to_string()
        } else if let Some(s) = payload.downcast_ref::<String>() {
            s.clone()
        } else {
            "panic".to_string()
        };
        (m, String::new())
    });
    Guarded::Panic(msg, loc)
}
