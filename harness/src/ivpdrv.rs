//! Uniform driver for the seven IVP solvers: builds the solver through the public builder API,
//! hands it an instrumented derivative closure (call counter, hard budget, fault injection) and
//! records the complete `next()` history.

use crate::probe::{self, BudgetError, Guarded};
use bacon_sci::ivp::{adams::*, bdf::*, rk::*, Euler, IVPError, IVPSolver, UserError};
use bacon_sci::{BVector, Dimension};
use nalgebra::{allocator::Allocator, ComplexField, Const, DefaultAllocator, Dim, Dyn, U1};
use num_complex::Complex;
use std::cell::Cell;

pub type C64 = Complex<f64>;

#[derive(Clone, Copy, PartialEq, Eq, Debug, Hash, PartialOrd, Ord)]
pub enum Solver {
    Euler,
    RK45,
    RK23,
    Adams5,
    Adams3,
    BDF6,
    BDF2,
}

impl Solver {
    pub const ALL: [Solver; 7] = [Solver::Euler, Solver::RK45, Solver::RK23, Solver::Adams5, Solver::Adams3, Solver::BDF6, Solver::BDF2];
    pub const ADAPTIVE: [Solver; 6] = [Solver::RK45, Solver::RK23, Solver::Adams5, Solver::Adams3, Solver::BDF6, Solver::BDF2];
    pub fn name(self) -> &'static str {
        match self {
            Solver::Euler => "Euler",
            Solver::RK45 => "RK45",
            Solver::RK23 => "RK23",
            Solver::Adams5 => "Adams5",
            Solver::Adams3 => "Adams3",
            Solver::BDF6 => "BDF6",
            Solver::BDF2 => "BDF2",
        }
    }
    pub fn idx(self) -> usize {
        Solver::ALL.iter().position(|s| *s == self).unwrap()
    }
    pub fn is_rk(self) -> bool {
        matches!(self, Solver::RK45 | Solver::RK23)
    }
    pub fn is_adams(self) -> bool {
        matches!(self, Solver::Adams5 | Solver::Adams3)
    }
    pub fn is_bdf(self) -> bool {
        matches!(self, Solver::BDF6 | Solver::BDF2)
    }
    pub fn is_multistep(self) -> bool {
        self.is_adams() || self.is_bdf()
    }
    /// derivative evaluations per attempted Runge-Kutta step
    pub fn stages(self) -> u64 {
        match self {
            Solver::RK45 => 6,
            Solver::RK23 => 4,
            _ => 0,
        }
    }
    /// number of equally spaced previous points the multistep formula uses
    pub fn history(self) -> usize {
        match self {
            Solver::Adams5 => 4,
            Solver::Adams3 => 2,
            Solver::BDF6 => 6,
            Solver::BDF2 => 2,
            _ => 1,
        }
    }
    /// order p of the error estimator (work ~ T * tol^(-1/p))
    pub fn est_order(self) -> f64 {
        match self {
            Solver::RK45 => 4.0,
            Solver::RK23 => 2.0,
            Solver::Adams5 => 4.0,
            Solver::Adams3 => 2.0,
            Solver::BDF6 => 5.0,
            Solver::BDF2 => 2.0,
            Solver::Euler => 1.0,
        }
    }
    /// high-order family: L*dt_max <= 2 tol^(1/5); low-order: <= tol^(1/3)
    pub fn high_order(self) -> bool {
        matches!(self, Solver::RK45 | Solver::Adams5 | Solver::BDF6)
    }
}

#[derive(Clone, Copy, PartialEq, Eq, Debug)]
pub enum DimMode {
    Static,
    Dynamic,
}

#[derive(Clone, Debug)]
pub struct Cfg {
    pub t0: f64,
    pub t1: f64,
    pub dt_min: f64,
    pub dt_max: f64,
    pub tol: f64,
}

impl Cfg {
    /// initial trial step of the adaptive solvers
    pub fn dt0(&self) -> f64 {
        (self.dt_max + self.dt_min) * 0.5
    }
    pub fn span(&self) -> f64 {
        self.t1 - self.t0
    }
    pub fn to_json(&self) -> crate::json::J {
        crate::json::J::obj().set("t0", self.t0).set("t1", self.t1).set("dt_min", self.dt_min).set("dt_max", self.dt_max).set("tol", self.tol)
    }
}

#[derive(Clone, Debug, PartialEq)]
pub enum ErrKind {
    /// user error: display text, and the fault-injection payload if it downcasts to `Boom`
    User(String, Option<u64>),
    /// our own budget sentinel came back through the solver
    Budget,
    MinDt,
    MaxIter,
    Singular,
    Other(String),
}

impl ErrKind {
    pub fn short(&self) -> String {
        match self {
            ErrKind::User(s, b) => format!("UserError({}{})", s, b.map(|k| format!(", Boom({})", k)).unwrap_or_default()),
            ErrKind::Budget => "budget".into(),
            ErrKind::MinDt => "MinimumTimeDeltaExceeded".into(),
            ErrKind::MaxIter => "MaximumIterationsExceeded".into(),
            ErrKind::Singular => "SingularMatrix".into(),
            ErrKind::Other(s) => s.clone(),
        }
    }
}

/// Typed payload of injected faults.
#[derive(Debug)]
pub struct Boom(pub u64);
/// payload ids reported for a user error whose value is an `IVPStatus<IVPError>` (+1 Done, +2 Redo, +3 Failure)
pub const STATUS_PAYLOAD: u64 = 1 << 60;
impl std::fmt::Display for Boom {
    fn fmt(&self, f: &mut std::fmt::Formatter) -> std::fmt::Result {
        write!(f, "boom at call {}", self.0)
    }
}
impl std::error::Error for Boom {}

pub fn classify(e: IVPError) -> ErrKind {
    match e {
        IVPError::UserError(b) => {
            if b.downcast_ref::<BudgetError>().is_some() {
                ErrKind::Budget
            } else if let Some(bm) = b.downcast_ref::<Boom>() {
                ErrKind::User(b.to_string(), Some(bm.0))
            } else if let Some(st) = b.downcast_ref::<bacon_sci::ivp::IVPStatus<IVPError>>() {
                // the fault payload was itself a solver status (opts.fail_payload): reported as the user's error, unchanged
                let v = match st {
                    bacon_sci::ivp::IVPStatus::Done => 1,
                    bacon_sci::ivp::IVPStatus::Redo => 2,
                    bacon_sci::ivp::IVPStatus::Failure(_) => 3,
                };
                ErrKind::User(b.to_string(), Some(STATUS_PAYLOAD + v))
            } else {
                ErrKind::User(b.to_string(), None)
            }
        }
        IVPError::MinimumTimeDeltaExceeded => ErrKind::MinDt,
        IVPError::MaximumIterationsExceeded => ErrKind::MaxIter,
        IVPError::SingularMatrix => ErrKind::Singular,
        other => ErrKind::Other(format!("{:?}", other)),
    }
}

#[derive(Clone, Debug)]
pub enum Item<N> {
    Ok(f64, Vec<N>),
    Err(ErrKind),
}

#[derive(Clone, Debug)]
pub struct Outcome<N> {
    /// error from a builder call or from solve(): (which call, error debug text)
    pub build_err: Option<(String, String)>,
    /// every item returned by next(), in order
    pub items: Vec<Item<N>>,
    /// iteration stopped because max_items was reached (path longer than the cap)
    pub truncated: bool,
    /// the library panicked: (message, location)
    pub panic: Option<(String, String)>,
    /// the evaluation budget was exhausted (reported by the derivative itself)
    pub budget_hit: bool,
    /// derivative calls made
    pub calls: u64,
    /// results of the extra next() calls made after the first None / after an Err item:
    /// number of those that returned Some
    pub extra_some: usize,
    /// derivative calls made during those extra next() calls
    pub extra_calls: u64,
    /// what those extra next() calls returned when they returned Some
    pub extra_items: Vec<Item<N>>,
    /// dimension of the state of any item differs from the problem's
    pub dim_mismatch: bool,
    /// collect_vec() on the remainder after the end (opts.collect_after): Some((items, is_err, derivative calls made))
    pub collect_after: Option<(usize, bool, u64)>,
    /// Euler was given a minimum step as well (opts.euler_min): its step is then (dt_min+dt_max)/2
    pub euler_min_applied: bool,
}

impl<N: Clone> Outcome<N> {
    pub fn ok_points(&self) -> Vec<(f64, Vec<N>)> {
        self.items
            .iter()
            .filter_map(|i| match i {
                Item::Ok(t, y) => Some((*t, y.clone())),
                _ => None,
            })
            .collect()
    }
    pub fn first_err(&self) -> Option<&ErrKind> {
        self.items.iter().find_map(|i| match i {
            Item::Err(e) => Some(e),
            _ => None,
        })
    }
    pub fn n_err(&self) -> usize {
        self.items.iter().filter(|i| matches!(i, Item::Err(_))).count()
    }
    /// the solve ran to the end of iteration without any error item, panic, budget or cap
    pub fn clean(&self) -> bool {
        self.build_err.is_none() && self.panic.is_none() && !self.budget_hit && !self.truncated && self.n_err() == 0
    }
}

#[derive(Clone, Debug)]
pub struct Opts {
    pub budget: u64,
    /// make the derivative fail with Boom(k) at call number k (1-based)
    pub fail_at: Option<u64>,
    pub max_items: usize,
    /// number of extra next() calls after iteration ended
    pub extra_next: usize,
    /// use collect_vec instead of item-by-item iteration (items then hold the path or one Err)
    pub collect_vec: bool,
    /// Euler is configured through with_maximum_dt(dt_max) only
    pub mode: DimMode,
    /// after iteration ended (None or an Err item) and the extra next() calls, consume the SAME
    /// iterator with collect_vec(): a fused iterator gives Ok(empty) without calling the derivative
    pub collect_after: bool,
    /// order in which the builder calls are made (a valid configuration must build to the same
    /// solver whatever the order): 0 = min, max, tol, t0, t1, ic, derivative; other values permute
    pub order: u8,
    /// also call with_minimum_dt on Euler (its step is the mean of the two bounds, whatever the order of the calls)
    pub euler_min: bool,
    /// what the failing derivative call returns: 0 Boom(k); 1..3 a boxed solver status
    /// `IVPStatus<IVPError>` (Done, Redo, Failure(MinimumTimeDeltaExceeded)) - the value a derivative
    /// that drives a nested stepper forwards with `?`. It is the user's error all the same.
    pub fail_payload: u8,
}

impl Default for Opts {
    fn default() -> Self {
        Opts { budget: 5_000_000, fail_at: None, max_items: 200_000, extra_next: 0, collect_vec: false, mode: DimMode::Dynamic, collect_after: false, order: 0, euler_min: false, fail_payload: 0 }
    }
}

/// The user function of a problem, field-generic.
pub trait Rhs<N>: Sync {
    fn dim(&self) -> usize;
    fn eval(&self, t: f64, y: &[N], out: &mut [N]);
    /// bound on |df/dt| where it is not O(|f|) (narrow forcing features); scales the allowance for
    /// the one-ulp uncertainty of reconstructed stage times
    fn t_lip(&self) -> f64 {
        0.0
    }
    /// absolute rounding floor (per unit step) of an embedded error estimate re-computed from the
    /// previous point, where the problem knows it better than the generic 64 eps (1 + |y|) / h: a
    /// right-hand side that hardly depends on a huge state
    fn estimate_floor(&self, _t: f64, _ynorm: f64) -> Option<f64> {
        None
    }
}

type Boxed<'a, N, D> = Box<dyn FnMut(f64, &[N], &mut ()) -> Result<BVector<N, D>, UserError> + 'a>;

fn make_deriv<'a, N, D>(rhs: &'a dyn Rhs<N>, fail_at: Option<u64>, fail_payload: u8, calls: &'a Cell<u64>) -> Boxed<'a, N, D>
where
    N: ComplexField<RealField = f64> + Copy,
    D: Dimension,
    DefaultAllocator: Allocator<N, D>,
{
    let n = rhs.dim();
    let mut buf = vec![N::zero(); n];
    Box::new(move |t: f64, y: &[N], _: &mut ()| {
        calls.set(calls.get() + 1);
        if !probe::tick() {
            return Err(Box::new(BudgetError) as UserError);
        }
        if let Some(k) = fail_at {
            if calls.get() == k {
                return Err(match fail_payload {
                    1 => Box::new(bacon_sci::ivp::IVPStatus::<IVPError>::Done) as UserError,
                    2 => Box::new(bacon_sci::ivp::IVPStatus::<IVPError>::Redo) as UserError,
                    3 => Box::new(bacon_sci::ivp::IVPStatus::<IVPError>::Failure(IVPError::MinimumTimeDeltaExceeded)) as UserError,
                    _ => Box::new(Boom(k)) as UserError,
                });
            }
        }
        rhs.eval(t, y, &mut buf);
        Ok(BVector::from_column_slice_generic(D::from_usize(n), U1::from_usize(1), &buf))
    })
}

fn go<'a, N, D, S>(solver: Solver, n: usize, cfg: &Cfg, y0: &[N], deriv: S::Derivative, calls: &Cell<u64>, opts: &Opts) -> Outcome<N>
where
    N: ComplexField<RealField = f64> + Copy,
    D: Dimension,
    DefaultAllocator: Allocator<N, D>,
    S: IVPSolver<'a, D, Field = N, RealField = f64, UserData = (), Error = IVPError>,
{
    let mut out = Outcome { build_err: None, items: vec![], truncated: false, panic: None, budget_hit: false, calls: 0, extra_some: 0, extra_calls: 0, extra_items: vec![], dim_mismatch: false, collect_after: None, euler_min_applied: solver == Solver::Euler && opts.euler_min };
    probe::begin(opts.budget);
    let res = probe::guard(|| -> Result<(Vec<Item<N>>, bool, usize, u64, bool, Vec<Item<N>>, Option<(usize, bool, u64)>), (String, String)> {
        let b = match opts.mode {
            DimMode::Static => S::new(),
            DimMode::Dynamic => S::new_dyn(n),
        }
        .map_err(|e| ("new".to_string(), format!("{:?}", e)))?;
        // the builder calls, in the order selected by opts.order
        #[derive(Clone, Copy, PartialEq)]
        enum Call {
            Min,
            Max,
            Tol,
            T0,
            T1,
            Ic,
        }
        let orders: [[Call; 6]; 6] = [
            [Call::Min, Call::Max, Call::Tol, Call::T0, Call::T1, Call::Ic],
            [Call::Max, Call::Min, Call::Tol, Call::T0, Call::T1, Call::Ic],
            [Call::Tol, Call::Max, Call::Min, Call::T1, Call::T0, Call::Ic],
            [Call::T1, Call::T0, Call::Ic, Call::Max, Call::Tol, Call::Min],
            [Call::Ic, Call::T0, Call::Max, Call::T1, Call::Min, Call::Tol],
            [Call::T0, Call::Min, Call::T1, Call::Tol, Call::Ic, Call::Max],
        ];
        let mut b = b;
        for c in orders[(opts.order % 6) as usize] {
            b = match c {
                Call::Min if solver == Solver::Euler && !opts.euler_min => b,
                Call::Tol if solver == Solver::Euler => b,
                Call::Min => b.with_minimum_dt(cfg.dt_min).map_err(|e| ("with_minimum_dt".to_string(), format!("{:?}", e)))?,
                Call::Max => b.with_maximum_dt(cfg.dt_max).map_err(|e| ("with_maximum_dt".to_string(), format!("{:?}", e)))?,
                Call::Tol => b.with_tolerance(cfg.tol).map_err(|e| ("with_tolerance".to_string(), format!("{:?}", e)))?,
                Call::T0 => b.with_initial_time(cfg.t0).map_err(|e| ("with_initial_time".to_string(), format!("{:?}", e)))?,
                Call::T1 => b.with_ending_time(cfg.t1).map_err(|e| ("with_ending_time".to_string(), format!("{:?}", e)))?,
                Call::Ic => b.with_initial_conditions_slice(y0).map_err(|e| ("with_initial_conditions_slice".to_string(), format!("{:?}", e)))?,
            };
        }
        let b = b.with_derivative(deriv);
        let mut it = b.solve(()).map_err(|e| ("solve".to_string(), format!("{:?}", e)))?;
        let mut items = vec![];
        let mut truncated = false;
        let mut dim_mismatch = false;
        if opts.collect_vec {
            match it.collect_vec() {
                Ok(path) => {
                    for (t, y) in path {
                        if y.len() != n {
                            dim_mismatch = true;
                        }
                        items.push(Item::Ok(t, y.as_slice().to_vec()));
                    }
                }
                Err(e) => items.push(Item::Err(classify(e))),
            }
            return Ok((items, false, 0, 0, dim_mismatch, vec![], None));
        }
        let mut ended = false;
        while items.len() < opts.max_items {
            match it.next() {
                None => {
                    ended = true;
                    break;
                }
                Some(Ok((t, y))) => {
                    if y.len() != n {
                        dim_mismatch = true;
                    }
                    items.push(Item::Ok(t, y.as_slice().to_vec()));
                }
                Some(Err(e)) => {
                    let k = classify(e);
                    let stop = true;
                    items.push(Item::Err(k));
                    if stop {
                        ended = true;
                        break;
                    }
                }
            }
        }
        if !ended {
            truncated = true;
        }
        let mut extra_some = 0;
        let mut extra_items = vec![];
        let before = calls.get();
        if ended {
            for _ in 0..opts.extra_next {
                if let Some(x) = it.next() {
                    extra_some += 1;
                    // record what came out, so the monitor can show it
                    match x {
                        Ok((t, y)) => extra_items.push(Item::Ok(t, y.as_slice().to_vec())),
                        Err(e) => extra_items.push(Item::Err(classify(e))),
                    }
                }
            }
        }
        let extra_calls = calls.get() - before;
        let mut after = None;
        if ended && opts.collect_after {
            let b2 = calls.get();
            after = Some(match it.collect_vec() {
                Ok(v) => (v.len(), false, calls.get() - b2),
                Err(_) => (0, true, calls.get() - b2),
            });
        }
        Ok((items, truncated, extra_some, extra_calls, dim_mismatch, extra_items, after))
    });
    out.calls = calls.get();
    out.budget_hit = probe::exceeded();
    match res {
        Guarded::Ok(Ok((items, truncated, extra_some, extra_calls, dm, extra_items, after))) => {
            out.extra_items = extra_items;
            out.collect_after = after;
            out.items = items;
            out.truncated = truncated;
            out.extra_some = extra_some;
            out.extra_calls = extra_calls;
            out.dim_mismatch = dm;
        }
        Guarded::Ok(Err(be)) => out.build_err = Some(be),
        Guarded::Budget => out.budget_hit = true,
        Guarded::Panic(m, l) => out.panic = Some((m, l)),
    }
    out
}

macro_rules! by_solver {
    ($solver:expr, $N:ty, $D:ty, $n:expr, $cfg:expr, $y0:expr, $rhs:expr, $opts:expr) => {{
        let calls = Cell::new(0u64);
        let deriv: Boxed<$N, $D> = make_deriv::<$N, $D>($rhs, $opts.fail_at, $opts.fail_payload, &calls);
        match $solver {
            Solver::Euler => go::<$N, $D, Euler<$N, $D, (), Boxed<$N, $D>>>($solver, $n, $cfg, $y0, deriv, &calls, $opts),
            Solver::RK45 => go::<$N, $D, RungeKutta45<$N, $D, (), Boxed<$N, $D>>>($solver, $n, $cfg, $y0, deriv, &calls, $opts),
            Solver::RK23 => go::<$N, $D, RungeKutta23<$N, $D, (), Boxed<$N, $D>>>($solver, $n, $cfg, $y0, deriv, &calls, $opts),
            Solver::Adams5 => go::<$N, $D, Adams5<$N, $D, (), Boxed<$N, $D>>>($solver, $n, $cfg, $y0, deriv, &calls, $opts),
            Solver::Adams3 => go::<$N, $D, Adams3<$N, $D, (), Boxed<$N, $D>>>($solver, $n, $cfg, $y0, deriv, &calls, $opts),
            Solver::BDF6 => go::<$N, $D, BDF6<$N, $D, (), Boxed<$N, $D>>>($solver, $n, $cfg, $y0, deriv, &calls, $opts),
            Solver::BDF2 => go::<$N, $D, BDF2<$N, $D, (), Boxed<$N, $D>>>($solver, $n, $cfg, $y0, deriv, &calls, $opts),
        }
    }};
}

macro_rules! by_dim {
    ($solver:expr, $N:ty, $cfg:expr, $y0:expr, $rhs:expr, $opts:expr) => {{
        let n = $rhs.dim();
        assert_eq!(n, $y0.len(), "harness: y0 length");
        match ($opts.mode, n) {
            (DimMode::Dynamic, _) => by_solver!($solver, $N, Dyn, n, $cfg, $y0, $rhs, $opts),
            (DimMode::Static, 1) => by_solver!($solver, $N, Const<1>, n, $cfg, $y0, $rhs, $opts),
            (DimMode::Static, 2) => by_solver!($solver, $N, Const<2>, n, $cfg, $y0, $rhs, $opts),
            (DimMode::Static, 3) => by_solver!($solver, $N, Const<3>, n, $cfg, $y0, $rhs, $opts),
            (DimMode::Static, 4) => by_solver!($solver, $N, Const<4>, n, $cfg, $y0, $rhs, $opts),
            (DimMode::Static, _) => panic!("harness: static dimension {} not instantiated", n),
        }
    }};
}

pub fn solve_real(solver: Solver, cfg: &Cfg, y0: &[f64], rhs: &dyn Rhs<f64>, opts: &Opts) -> Outcome<f64> {
    by_dim!(solver, f64, cfg, y0, rhs, opts)
}

pub fn solve_complex(solver: Solver, cfg: &Cfg, y0: &[C64], rhs: &dyn Rhs<C64>, opts: &Opts) -> Outcome<C64> {
    by_dim!(solver, C64, cfg, y0, rhs, opts)
}

/// misuse probes for C06: `new()` on a dynamic dimension / `new_dyn` on a static one.
pub fn dimension_misuse(solver: Solver) -> Vec<(String, String)> {
    // returns (what, observed) pairs; the check compares with the contract
    type F1 = fn(f64, &[f64], &mut ()) -> Result<BVector<f64, Const<1>>, UserError>;
    type FD = fn(f64, &[f64], &mut ()) -> Result<BVector<f64, Dyn>, UserError>;
    type F3 = fn(f64, &[f64], &mut ()) -> Result<BVector<f64, Const<3>>, UserError>;
    fn show<T>(r: Guarded<Result<T, IVPError>>) -> String {
        match r {
            Guarded::Ok(Ok(_)) => "Ok".into(),
            Guarded::Ok(Err(e)) => format!("{:?}", e),
            Guarded::Budget => "budget".into(),
            Guarded::Panic(m, _) => format!("panic: {}", m),
        }
    }
    macro_rules! both {
        ($S:ident) => {{
            vec![
                ("new() on Dyn".to_string(), show(probe::guard(|| $S::<f64, Dyn, (), FD>::new()))),
                ("new_dyn(2) on Const<1>".to_string(), show(probe::guard(|| $S::<f64, Const<1>, (), F1>::new_dyn(2)))),
                // a run-time size is misuse of a static dimension even when it equals that dimension
                ("new_dyn(1) on Const<1>".to_string(), show(probe::guard(|| $S::<f64, Const<1>, (), F1>::new_dyn(1)))),
                ("new_dyn(3) on Const<3>".to_string(), show(probe::guard(|| $S::<f64, Const<3>, (), F3>::new_dyn(3)))),
                ("new_dyn(0) on Dyn".to_string(), show(probe::guard(|| $S::<f64, Dyn, (), FD>::new_dyn(0)))),
                ("new() on Const<1>".to_string(), show(probe::guard(|| $S::<f64, Const<1>, (), F1>::new()))),
                ("new_dyn(3) on Dyn".to_string(), show(probe::guard(|| $S::<f64, Dyn, (), FD>::new_dyn(3)))),
            ]
        }};
    }
    match solver {
        Solver::Euler => both!(Euler),
        Solver::RK45 => both!(RungeKutta45),
        Solver::RK23 => both!(RungeKutta23),
        Solver::Adams5 => both!(Adams5),
        Solver::Adams3 => both!(Adams3),
        Solver::BDF6 => both!(BDF6),
        Solver::BDF2 => both!(BDF2),
    }
}

#[allow(dead_code)]
fn _assert_dim_usable<D: Dim>() {}

/// A real problem of even dimension 2n read as a complex problem of dimension n:
/// z_j' = f_j(t, Re z, Im z) + i f_{n+j}(t, Re z, Im z).
pub struct ComplexOf<'a> {
    pub real: &'a dyn Rhs<f64>,
}
impl<'a> Rhs<C64> for ComplexOf<'a> {
    fn dim(&self) -> usize {
        self.real.dim() / 2
    }
    fn eval(&self, t: f64, z: &[C64], out: &mut [C64]) {
        let n = z.len();
        let mut x = vec![0.0; 2 * n];
        for j in 0..n {
            x[j] = z[j].re;
            x[n + j] = z[j].im;
        }
        let mut f = vec![0.0; 2 * n];
        self.real.eval(t, &x, &mut f);
        for j in 0..n {
            out[j] = C64::new(f[j], f[n + j]);
        }
    }
}

/// pack the first n / last n real components into n complex ones
pub fn pack_complex(y: &[f64]) -> Vec<C64> {
    let n = y.len() / 2;
    (0..n).map(|j| C64::new(y[j], y[n + j])).collect()
}

/// the complex outcome seen as an outcome of the real 2n-system (extra items are dropped)
pub fn outcome_as_real(oc: &Outcome<C64>) -> Outcome<f64> {
    let conv = |it: &Item<C64>| match it {
        Item::Ok(t, y) => Item::Ok(*t, y.iter().map(|c| c.re).chain(y.iter().map(|c| c.im)).collect::<Vec<f64>>()),
        Item::Err(e) => Item::Err(e.clone()),
    };
    Outcome::<f64> {
        build_err: oc.build_err.clone(),
        items: oc.items.iter().map(conv).collect(),
        truncated: oc.truncated,
        panic: oc.panic.clone(),
        budget_hit: oc.budget_hit,
        calls: oc.calls,
        extra_some: oc.extra_some,
        extra_calls: oc.extra_calls,
        extra_items: vec![],
        dim_mismatch: oc.dim_mismatch,
        collect_after: None,
        euler_min_applied: oc.euler_min_applied,
    }
}
