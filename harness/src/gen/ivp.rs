//! Workload generators for the IVP properties (G-ivp, G-generic, G-config of DESIGN.md §3).

use crate::ivpdrv::{Cfg, Rhs, Solver};
use crate::json::J;
use crate::rng::Rng;

/// G-ivp: y' = A y + N(y) + g(t), A = -D + S (dissipative), bounded smooth non-linearity,
/// trigonometric forcing.
#[derive(Clone, Debug)]
pub struct IvpProblem {
    pub n: usize,
    /// row-major n x n
    pub a: Vec<f64>,
    /// per row: (coefficient, index j, kind) — kind 0: c sin(y_j); kind 1: c y_j/(1+y_j^2)
    pub nl: Vec<(f64, usize, u8)>,
    /// per row: (amplitude, frequency, phase): amp cos(w t + ph)
    pub forcing: Vec<(f64, f64, f64)>,
    /// Lipschitz / time-scale bound used to place dt_max
    pub lip: f64,
    pub y0: Vec<f64>,
    pub flavour: &'static str,
}

impl Rhs<f64> for IvpProblem {
    fn dim(&self) -> usize {
        self.n
    }
    fn eval(&self, t: f64, y: &[f64], out: &mut [f64]) {
        let n = self.n;
        for i in 0..n {
            let mut s = 0.0;
            for j in 0..n {
                s += self.a[i * n + j] * y[j];
            }
            let (c, j, kind) = self.nl[i];
            if c != 0.0 {
                s += if kind == 0 { c * y[j].sin() } else { c * y[j] / (1.0 + y[j] * y[j]) };
            }
            let (amp, w, ph) = self.forcing[i];
            if amp != 0.0 {
                s += amp * (w * t + ph).cos();
            }
            out[i] = s;
        }
    }
}

impl IvpProblem {
    pub fn to_json(&self) -> J {
        J::obj()
            .set("n", self.n)
            .set("flavour", self.flavour)
            .set("A", J::fs(&self.a))
            .set("nl", J::Arr(self.nl.iter().map(|(c, j, k)| J::Arr(vec![J::from(*c), J::from(*j), J::from(*k as i64)])).collect()))
            .set("forcing", J::Arr(self.forcing.iter().map(|(a, w, p)| J::fs(&[*a, *w, *p])).collect()))
            .set("lip", self.lip)
            .set("y0", J::fs(&self.y0))
    }

    /// flavour: 0 general, 1 linear, 2 autonomous, 3 linear autonomous, 4 at rest (f(t,y0) = 0
    /// for all t), 5 relaxing to a steady state
    pub fn gen(rng: &mut Rng, n: usize, flavour: usize) -> IvpProblem {
        Self::gen_amp(rng, n, flavour, 1.0)
    }

    /// `amp` scales the forcing amplitude: a stronger forcing makes the solution's higher
    /// derivatives larger at the same Lipschitz constant, so that the error estimator (not the
    /// step cap) limits the steps.
    pub fn gen_amp(rng: &mut Rng, n: usize, flavour: usize, amp: f64) -> IvpProblem {
        let s = rng.r(0.3, 2.0);
        let mut a = vec![0.0; n * n];
        let strictly = flavour == 5;
        let mut dmin = f64::INFINITY;
        for i in 0..n {
            let d = if strictly { rng.r(0.4, 1.0) * s } else { rng.r(0.0, 1.0) * s };
            dmin = dmin.min(d);
            a[i * n + i] = -d;
        }
        for i in 0..n {
            for j in (i + 1)..n {
                let sk = rng.r(-1.0, 1.0) * s / (n as f64).sqrt();
                let off = rng.r(-0.5, 0.5) * dmin / n as f64;
                a[i * n + j] = sk + off;
                a[j * n + i] = -sk + off;
            }
        }
        let linear = matches!(flavour, 1 | 3);
        let autonomous = matches!(flavour, 2 | 3 | 4 | 5);
        let mut nl = vec![];
        for _ in 0..n {
            if linear {
                nl.push((0.0, 0, 0));
            } else {
                nl.push((rng.r(-0.5, 0.5) * s / n as f64 * if strictly { 0.5 } else { 1.0 }, rng.below(n), rng.below(2) as u8));
            }
        }
        let mut forcing = vec![];
        let mut wmax: f64 = 0.0;
        for _ in 0..n {
            if autonomous {
                forcing.push((0.0, 0.0, 0.0));
            } else {
                let w = rng.r(0.2, 2.0) * s;
                wmax = wmax.max(w);
                forcing.push((rng.r(-1.0, 1.0) * amp, w, rng.r(0.0, 6.283)));
            }
        }
        let fro = a.iter().map(|x| x * x).sum::<f64>().sqrt();
        let lip = (fro + nl.iter().map(|x| x.0.abs()).sum::<f64>()).max(wmax).max(0.2);
        let y0: Vec<f64> = if flavour == 4 { vec![0.0; n] } else { (0..n).map(|_| rng.r(-1.0, 1.0)).collect() };
        let flavour = ["general", "linear", "autonomous", "linear-autonomous", "at-rest", "relaxing"][flavour];
        IvpProblem { n, a, nl, forcing, lip, y0, flavour }
    }
}

/// G-generic (C03): every stage abscissa and every weight influences the result.
/// f_i = sin(a_i t + b_i . y) + c_i y_j y_k / (1 + |y|^2) + d_i cos(e_i t)
#[derive(Clone, Debug)]
pub struct GenericProblem {
    pub n: usize,
    pub a: Vec<f64>,
    pub b: Vec<f64>,
    pub c: Vec<(f64, usize, usize)>,
    pub d: Vec<(f64, f64)>,
    pub lip: f64,
    pub y0: Vec<f64>,
}

impl Rhs<f64> for GenericProblem {
    fn dim(&self) -> usize {
        self.n
    }
    fn eval(&self, t: f64, y: &[f64], out: &mut [f64]) {
        let n = self.n;
        let nn: f64 = y.iter().map(|v| v * v).sum();
        for i in 0..n {
            let mut arg = self.a[i] * t;
            for j in 0..n {
                arg += self.b[i * n + j] * y[j];
            }
            let (c, j, k) = self.c[i];
            let (d, e) = self.d[i];
            out[i] = arg.sin() + c * y[j] * y[k] / (1.0 + nn) + d * (e * t).cos();
        }
    }
    fn estimate_floor(&self, t: f64, _ynorm: f64) -> Option<f64> {
        // without the b.y argument the state enters through the bounded quotient only: a relative
        // perturbation eps of the state moves f by at most 4 |c| eps, a relative perturbation eps of a
        // stage time by at most lip |t| eps, and the weighted sum of the stages adds eps |f|
        if self.b.iter().all(|v| *v == 0.0) {
            Some(64.0 * f64::EPSILON * (self.lip * (1.0 + t.abs()) + 7.0) * (self.n as f64).sqrt())
        } else {
            None
        }
    }
}

impl GenericProblem {
    pub fn gen(rng: &mut Rng, n: usize) -> GenericProblem {
        let a: Vec<f64> = (0..n).map(|_| rng.r(-3.0, 3.0)).collect();
        let b: Vec<f64> = (0..n * n).map(|_| rng.r(-1.5, 1.5)).collect();
        let c: Vec<(f64, usize, usize)> = (0..n).map(|_| (rng.r(-1.0, 1.0), rng.below(n), rng.below(n))).collect();
        let d: Vec<(f64, f64)> = (0..n).map(|_| (rng.r(-1.0, 1.0), rng.r(0.5, 6.0))).collect();
        let mut l: f64 = 0.0;
        for i in 0..n {
            let row: f64 = (0..n).map(|j| b[i * n + j] * b[i * n + j]).sum::<f64>().sqrt();
            l = l.max(row + 2.0 * c[i].0.abs()).max(a[i].abs()).max(d[i].1);
        }
        let y0 = (0..n).map(|_| rng.r(-1.0, 1.0)).collect();
        GenericProblem { n, a, b, c, d, lip: l.max(0.5) * (n as f64).sqrt(), y0 }
    }
    pub fn to_json(&self) -> J {
        J::obj()
            .set("n", self.n)
            .set("a", J::fs(&self.a))
            .set("b", J::fs(&self.b))
            .set("c", J::Arr(self.c.iter().map(|(c, j, k)| J::Arr(vec![J::from(*c), J::from(*j), J::from(*k)])).collect()))
            .set("d", J::Arr(self.d.iter().map(|(d, e)| J::fs(&[*d, *e])).collect()))
            .set("lip", self.lip)
            .set("y0", J::fs(&self.y0))
    }
}

/// dt_max as the property prescribes: L dt_max <= 2 tol^(1/5) (high order) or tol^(1/3) (low
/// order), times a factor in [0.5, 1].
pub fn dtmax_for(solver: Solver, lip: f64, tol: f64, factor: f64) -> f64 {
    let cap = if solver.high_order() { 2.0 * tol.powf(0.2) } else { tol.powf(1.0 / 3.0) };
    cap / lip * factor
}

/// G-config: random configuration around a problem
pub fn gen_cfg(rng: &mut Rng, solver: Solver, lip: f64, tol_range: (f64, f64), steps_log10: (f64, f64)) -> Cfg {
    let tol = rng.log10(tol_range.0, tol_range.1);
    let dt_max = if solver == Solver::Euler { rng.log10(-3.0, -1.0) / lip.max(1.0) } else { dtmax_for(solver, lip, tol, rng.r(0.5, 1.0)) };
    let t0 = rng.r(-2.0, 2.0);
    let span = dt_max * rng.log10(steps_log10.0, steps_log10.1);
    let dt_min = dt_max * rng.log10(-8.0, -6.0);
    Cfg { t0, t1: t0 + span, dt_min, dt_max, tol }
}

fn next_up(x: f64) -> f64 {
    if x == 0.0 {
        return f64::MIN_POSITIVE;
    }
    let b = x.to_bits();
    f64::from_bits(if x > 0.0 { b + 1 } else { b - 1 })
}
fn next_down(x: f64) -> f64 {
    -next_up(-x)
}

pub const SWEEP_DELTAS: usize = 17;

/// Boundary sweep: T = (m + delta) dt0 for the k-th delta of a fixed list.
pub fn sweep_span(dt0: f64, m: usize, k: usize) -> f64 {
    let base = m as f64 * dt0;
    let v = match k {
        0 => base,
        1 => next_up(base),
        2 => next_down(base),
        3 => base + 1e-12 * dt0,
        4 => base - 1e-12 * dt0,
        5 => base + 1e-6 * dt0,
        6 => base - 1e-6 * dt0,
        7 => base + 0.01 * dt0,
        8 => base - 0.01 * dt0,
        9 => base + 0.3 * dt0,
        10 => base - 0.3 * dt0,
        11 => base + 0.5 * dt0,
        12 => base + 0.75 * dt0,
        13 => base + 0.999 * dt0,
        14 => base + 0.1 * dt0,
        15 => base + 1e-9 * dt0,
        _ => base - 1e-9 * dt0,
    };
    v
}
