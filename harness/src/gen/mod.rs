pub mod ivp;
