//! bacon-verif: runtime monitors for the 20 properties of /verif/properties.jsonl.
//!   bacon-verif check <ID> [--tier quick|thorough] [--seed N] [--threads N]
//!   bacon-verif replay <file>
//!   bacon-verif list

mod checks;
mod gen;
mod ivpdrv;
mod json;
mod probe;
mod refmodel;
mod report;
mod rng;

use report::{Ctx, Tier};
use std::time::{Duration, Instant};

fn usage() -> ! {
    eprintln!("usage: bacon-verif check <ID> [--tier quick|thorough] [--seed N] [--threads N] | replay <file> | list");
    std::process::exit(3);
}

fn run_check(id: &str, ctx: &Ctx) -> i32 {
    let defs = checks::all();
    let def = match defs.iter().find(|d| d.id == id) {
        Some(d) => d,
        None => {
            eprintln!("unknown check {}", id);
            return 3;
        }
    };
    let t0 = Instant::now();
    let meta = (def.meta)();
    let stages = (def.stages)(ctx);
    let watchdog = Duration::from_secs(ctx.tier.pick(90, 300));
    let (rep, stuck) = report::run_stages(ctx, stages, watchdog);
    let thresholds = (def.thresholds)(ctx, &rep);
    let wall = t0.elapsed().as_secs_f64();
    report::finalize(ctx, &meta, rep, stuck, thresholds, wall, json::J::obj())
}

fn main() {
    probe::install_panic_hook();
    let args: Vec<String> = std::env::args().collect();
    if args.len() < 2 {
        usage();
    }
    let base = std::env::var("VERIF_DIR").unwrap_or_else(|_| "/verif".to_string());
    let env_seed = std::env::var("VERIF_SEED").ok().and_then(|s| s.trim().parse::<i64>().ok()).map(|v| v as u64);
    let threads_default = std::thread::available_parallelism().map(|n| n.get()).unwrap_or(8).min(16);
    match args[1].as_str() {
        // child mode of the process-history monitors: a fresh process runs one fixed battery in a given
        // order of numeric types and prints one line per measurement (see checks::c19::order_probe)
        "probe" => {
            let which = args.get(2).map(|s| s.as_str()).unwrap_or("");
            let order = args.get(3).map(|s| s.as_str()).unwrap_or("");
            match which {
                "C19" => checks::c19::order_probe(order),
                "C18" => checks::c18::order_probe(order),
                _ => usage(),
            }
        }
        "list" => {
            for d in checks::all() {
                println!("{}", d.id);
            }
        }
        "check" => {
            if args.len() < 3 {
                usage();
            }
            let id = args[2].clone();
            let mut tier = match std::env::var("VERIF_TIER").ok().as_deref() {
                Some("thorough") => Tier::Thorough,
                _ => Tier::Quick,
            };
            let mut seed = env_seed.unwrap_or(1);
            let mut threads = threads_default;
            let mut i = 3;
            while i < args.len() {
                match args[i].as_str() {
                    "--tier" => {
                        tier = if args.get(i + 1).map(|s| s.as_str()) == Some("thorough") { Tier::Thorough } else { Tier::Quick };
                        i += 1;
                    }
                    "--seed" => {
                        seed = args.get(i + 1).and_then(|s| s.parse::<i64>().ok()).map(|v| v as u64).unwrap_or(seed);
                        i += 1;
                    }
                    "--threads" => {
                        threads = args.get(i + 1).and_then(|s| s.parse().ok()).unwrap_or(threads);
                        i += 1;
                    }
                    _ => usage(),
                }
                i += 1;
            }
            let ctx = Ctx { tier, seed, threads, base, only: None };
            std::process::exit(run_check(&id, &ctx));
        }
        "replay" => {
            if args.len() < 3 {
                usage();
            }
            let src = std::fs::read_to_string(&args[2]).unwrap_or_else(|e| {
                eprintln!("cannot read {}: {}", args[2], e);
                std::process::exit(3)
            });
            let j = json::parse(&src).unwrap_or_else(|e| {
                eprintln!("bad replay file: {}", e);
                std::process::exit(3)
            });
            let id = j.get("property").and_then(|v| v.as_str()).unwrap_or("").to_string();
            let tier = if j.get("tier").and_then(|v| v.as_str()) == Some("thorough") { Tier::Thorough } else { Tier::Quick };
            let seed = j.get("seed").and_then(|v| v.as_i64()).unwrap_or(1) as u64;
            let stage = j.get("stage").and_then(|v| v.as_str()).unwrap_or("").to_string();
            let index = j.get("index").and_then(|v| v.as_i64()).unwrap_or(0) as u64;
            println!("replaying property={} tier={} seed={} stage={} case={}", id, tier.name(), seed, stage, index);
            let ctx = Ctx { tier, seed, threads: 1, base, only: Some((stage, index)) };
            std::process::exit(run_check(&id, &ctx));
        }
        _ => usage(),
    }
}
