//! bacon-verif: runtime monitors for the 20 properties of /verif/properties.jsonl.
//!   bacon-verif check <ID> [--tier quick|thorough] [--seed N] [--threads N]
//!   bacon-verif replay <file>
//!   bacon-verif list

mod checks;
mod gen;
mod ivpdrv;
mod json;
mod probe;
mod refmodel;
mod report;
mod rng;

use report::{Ctx, Tier};
use std::time::{Duration, Instant};

fn usage() -> ! {
    eprintln!("usage: bacon-verif check <ID> [--tier quick|thorough] [--seed N] [--threads N] | replay <file> | list");
    std::process::exit(3);
}

/// Second pass in the build profile WITHOUT debug assertions and overflow checks (`[profile.plain]`,
/// built by ./check next to the monitored build; path in BACON_VERIF_PLAIN). The same monitors run in a
/// child process over the complete quick tier; a violation observed
/// there is a violation of the property in the profile downstream users ship. Returns the evidence
/// block, or an error text (harness error / inconclusive, never a verdict).
fn plain_pass(id: &str, ctx: &Ctx, rep: &mut report::Report) -> Result<json::J, String> {
    use json::J;
    let bin = match std::env::var("BACON_VERIF_PLAIN") {
        Ok(b) if !b.is_empty() => b,
        _ => return Ok(J::obj().set("run", false).set("why", "BACON_VERIF_PLAIN not set (binary started without ./check)")),
    };
    if !std::path::Path::new(&bin).exists() {
        return Err(format!("plain-profile binary {} does not exist", bin));
    }
    let out = format!("{}/plain-out/{}", ctx.base, id);
    let _ = std::fs::remove_dir_all(&out);
    std::fs::create_dir_all(&out).map_err(|e| format!("cannot create {}: {}", out, e))?;
    if let Ok(k) = std::fs::read(format!("{}/known_findings.json", ctx.base)) {
        let _ = std::fs::write(format!("{}/known_findings.json", out), k);
    }
    let log = std::fs::File::create(format!("{}/log.txt", out)).map_err(|e| e.to_string())?;
    let log2 = log.try_clone().map_err(|e| e.to_string())?;
    let t0 = Instant::now();
    let mut child = std::process::Command::new(&bin)
        .args(["check", id, "--tier", "quick", "--seed", &ctx.seed.to_string(), "--stride", "1", "--threads", &ctx.threads.to_string()])
        .env("VERIF_DIR", &out)
        .env("BACON_VERIF_PROFILE", "plain")
        .env_remove("BACON_VERIF_PLAIN")
        .stdout(log)
        .stderr(log2)
        .spawn()
        .map_err(|e| format!("cannot start {}: {}", bin, e))?;
    // generous wall-clock watchdog; its firing is inconclusive, never a violation
    let limit = Duration::from_secs(1800);
    let status = loop {
        match child.try_wait() {
            Ok(Some(st)) => break st,
            Ok(None) => {
                if t0.elapsed() > limit {
                    let _ = child.kill();
                    let _ = child.wait();
                    rep.inconclusive("plain-profile-child-timeout");
                    return Ok(J::obj().set("run", true).set("timed_out", true));
                }
                std::thread::sleep(Duration::from_millis(50));
            }
            Err(e) => return Err(format!("waiting for the plain-profile child: {}", e)),
        }
    };
    let code = status.code().unwrap_or(-1);
    if code != 0 && code != 1 && code != 2 {
        return Err(format!("plain-profile child ended with status {} (log: {}/log.txt)", code, out));
    }
    let ev_src = std::fs::read_to_string(format!("{}/evidence/{}.json", out, id)).map_err(|e| format!("plain-profile child wrote no evidence: {}", e))?;
    let ev = json::parse(&ev_src).map_err(|e| format!("plain-profile evidence: {}", e))?;
    let cov = ev.get("coverage").cloned().unwrap_or(J::obj());
    let evals = cov.get("evaluations").and_then(|v| v.as_i64()).unwrap_or(0);
    let nviol = ev.get("violations").and_then(|v| v.as_i64()).unwrap_or(0);
    rep.count("plain_profile/evaluations", evals);
    // every stored witness of the child becomes a violation of this run (signature prefixed)
    let mut files: Vec<_> = std::fs::read_dir(format!("{}/replay", out)).map(|d| d.filter_map(|e| e.ok()).map(|e| e.path()).collect()).unwrap_or_default();
    files.sort();
    let mut stored = 0;
    for (n, f) in files.iter().enumerate() {
        if let Ok(src) = std::fs::read_to_string(f) {
            if let Ok(j) = json::parse(&src) {
                let sig = j.get("signature").and_then(|v| v.as_str()).unwrap_or("?").to_string();
                let detail = j.get("detail").and_then(|v| v.as_str()).unwrap_or("").to_string();
                rep.cur_stage = "plain-profile".to_string();
                rep.cur_index = n as u64;
                rep.violation(&format!("plain-profile/{}", sig), j, format!("in the build without debug assertions and overflow checks: {}", detail));
                stored += 1;
            }
        }
    }
    if nviol > 0 && stored == 0 {
        return Err(format!("plain-profile child reported {} violation(s) but stored no witness (log: {}/log.txt)", nviol, out));
    }
    let mut viol_counters = J::obj();
    if let Some(J::Obj(cs)) = cov.get("counters") {
        for (k, v) in cs {
            if k.starts_with("violations/") {
                viol_counters.put(k, v.clone());
            }
        }
    }
    Ok(J::obj()
        .set("run", true)
        .set("profile", "release, debug-assertions off, overflow-checks off")
        .set("tier", "quick")
        .set("stride_in_large_stages", 1)
        .set("evaluations", evals)
        .set("distinct_nontrivial", cov.get("distinct_nontrivial").cloned().unwrap_or(J::from(0)))
        .set("violations", nviol)
        .set("known_findings_matched", cov.get("known_findings_matched").cloned().unwrap_or(J::from(0)))
        .set("violation_counters", viol_counters)
        .set("child_exit", code as i64)
        .set("wall_s", t0.elapsed().as_secs_f64()))
}

fn run_check(id: &str, ctx: &Ctx) -> i32 {
    let defs = checks::all();
    let def = match defs.iter().find(|d| d.id == id) {
        Some(d) => d,
        None => {
            eprintln!("unknown check {}", id);
            return 3;
        }
    };
    let t0 = Instant::now();
    let meta = (def.meta)();
    let stages = (def.stages)(ctx);
    let watchdog = Duration::from_secs(ctx.tier.pick(90, 300));
    let (mut rep, stuck) = report::run_stages(ctx, stages, watchdog);
    let mut thresholds = (def.thresholds)(ctx, &rep);
    let mut extra = json::J::obj();
    let is_child = std::env::var("BACON_VERIF_PROFILE").ok().as_deref() == Some("plain");
    if is_child {
        extra.put("build_profile", "plain");
    } else if ctx.only.is_none() && stuck.is_empty() {
        match plain_pass(id, ctx, &mut rep) {
            Ok(j) => {
                if j.get("run") == Some(&json::J::Bool(true)) {
                    thresholds.push(report::Threshold {
                        what: "executions observed in the build profile without debug assertions".to_string(),
                        required: 1.0,
                        observed: rep.counter("plain_profile/evaluations") as f64,
                    });
                }
                extra.put("plain_profile", j);
            }
            Err(e) => rep.harness_errors.push(e),
        }
    }
    let wall = t0.elapsed().as_secs_f64();
    report::finalize(ctx, &meta, rep, stuck, thresholds, wall, extra)
}

fn main() {
    probe::install_panic_hook();
    let args: Vec<String> = std::env::args().collect();
    if args.len() < 2 {
        usage();
    }
    let base = std::env::var("VERIF_DIR").unwrap_or_else(|_| "/verif".to_string());
    let env_seed = std::env::var("VERIF_SEED").ok().and_then(|s| s.trim().parse::<i64>().ok()).map(|v| v as u64);
    let threads_default = std::thread::available_parallelism().map(|n| n.get()).unwrap_or(8).min(16);
    match args[1].as_str() {
        // child mode of the process-history monitors: a fresh process runs one fixed battery in a given
        // order of numeric types and prints one line per measurement (see checks::c19::order_probe)
        "probe" => {
            let which = args.get(2).map(|s| s.as_str()).unwrap_or("");
            let order = args.get(3).map(|s| s.as_str()).unwrap_or("");
            match which {
                "C19" => checks::c19::order_probe(order),
                "C18" => checks::c18::order_probe(order),
                _ => usage(),
            }
        }
        "list" => {
            for d in checks::all() {
                println!("{}", d.id);
            }
        }
        "check" => {
            if args.len() < 3 {
                usage();
            }
            let id = args[2].clone();
            let mut tier = match std::env::var("VERIF_TIER").ok().as_deref() {
                Some("thorough") => Tier::Thorough,
                _ => Tier::Quick,
            };
            let mut seed = env_seed.unwrap_or(1);
            let mut threads = threads_default;
            let mut stride: u64 = 1;
            let mut i = 3;
            while i < args.len() {
                match args[i].as_str() {
                    "--tier" => {
                        tier = if args.get(i + 1).map(|s| s.as_str()) == Some("thorough") { Tier::Thorough } else { Tier::Quick };
                        i += 1;
                    }
                    "--seed" => {
                        seed = args.get(i + 1).and_then(|s| s.parse::<i64>().ok()).map(|v| v as u64).unwrap_or(seed);
                        i += 1;
                    }
                    "--threads" => {
                        threads = args.get(i + 1).and_then(|s| s.parse().ok()).unwrap_or(threads);
                        i += 1;
                    }
                    "--stride" => {
                        stride = args.get(i + 1).and_then(|s| s.parse().ok()).unwrap_or(1);
                        i += 1;
                    }
                    _ => usage(),
                }
                i += 1;
            }
            let ctx = Ctx { tier, seed, threads, base, only: None, stride };
            std::process::exit(run_check(&id, &ctx));
        }
        "replay" => {
            if args.len() < 3 {
                usage();
            }
            let src = std::fs::read_to_string(&args[2]).unwrap_or_else(|e| {
                eprintln!("cannot read {}: {}", args[2], e);
                std::process::exit(3)
            });
            let j = json::parse(&src).unwrap_or_else(|e| {
                eprintln!("bad replay file: {}", e);
                std::process::exit(3)
            });
            let id = j.get("property").and_then(|v| v.as_str()).unwrap_or("").to_string();
            let tier = if j.get("tier").and_then(|v| v.as_str()) == Some("thorough") { Tier::Thorough } else { Tier::Quick };
            let seed = j.get("seed").and_then(|v| v.as_i64()).unwrap_or(1) as u64;
            let stage = j.get("stage").and_then(|v| v.as_str()).unwrap_or("").to_string();
            let index = j.get("index").and_then(|v| v.as_i64()).unwrap_or(0) as u64;
            if stage == "plain-profile" {
                // witness of the second pass: the stored case is the child's own replay file; hand it to
                // the binary of that build profile
                let bin = std::env::var("BACON_VERIF_PLAIN").unwrap_or_default();
                let inner = j.get("case").cloned().unwrap_or(json::J::obj());
                let tmp = format!("{}/plain-out/replay-inner.json", base);
                let _ = std::fs::create_dir_all(format!("{}/plain-out", base));
                if bin.is_empty() || std::fs::write(&tmp, inner.to_string_pretty()).is_err() {
                    eprintln!("cannot replay a plain-profile witness: BACON_VERIF_PLAIN not set (use ./check --replay) or {} not writable", tmp);
                    std::process::exit(3);
                }
                let st = std::process::Command::new(&bin).args(["replay", &tmp]).env("BACON_VERIF_PROFILE", "plain").env_remove("BACON_VERIF_PLAIN").status();
                std::process::exit(st.ok().and_then(|s| s.code()).unwrap_or(3));
            }
            println!("replaying property={} tier={} seed={} stage={} case={}", id, tier.name(), seed, stage, index);
            let ctx = Ctx { tier, seed, threads: 1, base, only: Some((stage, index)), stride: 1 };
            std::process::exit(run_check(&id, &ctx));
        }
        _ => usage(),
    }
}
