pub mod schemes;
