//! Reference formulas transcribed from the literature (not from the repository):
//! classical RK4; Fehlberg 4(5) [Fehlberg 1969; Burden & Faires Alg. 5.3]; Bogacki-Shampine 3(2)
//! [Appl. Math. Lett. 2 (1989)]; Adams-Bashforth / Adams-Moulton 2- and 4-step weights
//! [Burden & Faires §5.6]; BDF coefficients [Hairer-Norsett-Wanner III.1]; and a high-accuracy
//! reference flow (RK4 + Richardson with step doubling).

use crate::ivpdrv::Rhs;

pub fn norm2(v: &[f64]) -> f64 {
    v.iter().map(|x| x * x).sum::<f64>().sqrt()
}
pub fn dist2(a: &[f64], b: &[f64]) -> f64 {
    a.iter().zip(b).map(|(x, y)| (x - y) * (x - y)).sum::<f64>().sqrt()
}

fn axpy(y: &[f64], terms: &[(&[f64], f64)]) -> Vec<f64> {
    let mut out = y.to_vec();
    for (k, c) in terms {
        for i in 0..out.len() {
            out[i] += c * k[i];
        }
    }
    out
}

fn f(rhs: &dyn Rhs<f64>, t: f64, y: &[f64]) -> Vec<f64> {
    let mut out = vec![0.0; y.len()];
    rhs.eval(t, y, &mut out);
    out
}

fn scaled(rhs: &dyn Rhs<f64>, t: f64, y: &[f64], h: f64) -> Vec<f64> {
    let mut k = f(rhs, t, y);
    for v in k.iter_mut() {
        *v *= h;
    }
    k
}

/// one classical RK4 step
pub fn rk4_step(rhs: &dyn Rhs<f64>, t: f64, y: &[f64], h: f64) -> Vec<f64> {
    let k1 = scaled(rhs, t, y, h);
    let k2 = scaled(rhs, t + h / 2.0, &axpy(y, &[(&k1, 0.5)]), h);
    let k3 = scaled(rhs, t + h / 2.0, &axpy(y, &[(&k2, 0.5)]), h);
    let k4 = scaled(rhs, t + h, &axpy(y, &[(&k3, 1.0)]), h);
    axpy(y, &[(&k1, 1.0 / 6.0), (&k2, 2.0 / 6.0), (&k3, 2.0 / 6.0), (&k4, 1.0 / 6.0)])
}

fn rk4_multi(rhs: &dyn Rhs<f64>, t: f64, y: &[f64], h: f64, m: usize) -> Vec<f64> {
    let hh = h / m as f64;
    let mut y = y.to_vec();
    for i in 0..m {
        y = rk4_step(rhs, t + i as f64 * hh, &y, hh);
    }
    y
}

/// Reference flow over [t, t+h] with internal error estimate. Returns (value, estimate).
/// The estimate is |y_2m - y_m|/15 of the Richardson pair; callers treat a step whose estimate
/// exceeds their accuracy target as inconclusive.
pub fn flow(rhs: &dyn Rhs<f64>, lip: f64, t: f64, y: &[f64], h: f64) -> (Vec<f64>, f64) {
    let mut m = ((h.abs() * lip * 20.0).ceil() as usize).max(4);
    loop {
        let a = rk4_multi(rhs, t, y, h, m);
        let b = rk4_multi(rhs, t, y, h, 2 * m);
        let mut r = b.clone();
        for i in 0..r.len() {
            r[i] += (b[i] - a[i]) / 15.0;
        }
        let e = dist2(&a, &b) / 15.0;
        if e <= 1e-15 * (1.0 + norm2(&r)) || m > 2048 {
            return (r, e);
        }
        m *= 2;
    }
}

/// Fehlberg 4(5): returns (fourth-order value that is propagated, |y5 - y4| / h)
pub fn rkf45_step(rhs: &dyn Rhs<f64>, t: f64, y: &[f64], h: f64) -> (Vec<f64>, f64) {
    let k1 = scaled(rhs, t, y, h);
    let k2 = scaled(rhs, t + h / 4.0, &axpy(y, &[(&k1, 1.0 / 4.0)]), h);
    let k3 = scaled(rhs, t + 3.0 * h / 8.0, &axpy(y, &[(&k1, 3.0 / 32.0), (&k2, 9.0 / 32.0)]), h);
    let k4 = scaled(rhs, t + 12.0 * h / 13.0, &axpy(y, &[(&k1, 1932.0 / 2197.0), (&k2, -7200.0 / 2197.0), (&k3, 7296.0 / 2197.0)]), h);
    let k5 = scaled(rhs, t + h, &axpy(y, &[(&k1, 439.0 / 216.0), (&k2, -8.0), (&k3, 3680.0 / 513.0), (&k4, -845.0 / 4104.0)]), h);
    let k6 = scaled(
        rhs,
        t + h / 2.0,
        &axpy(y, &[(&k1, -8.0 / 27.0), (&k2, 2.0), (&k3, -3544.0 / 2565.0), (&k4, 1859.0 / 4104.0), (&k5, -11.0 / 40.0)]),
        h,
    );
    let y4 = axpy(y, &[(&k1, 25.0 / 216.0), (&k3, 1408.0 / 2565.0), (&k4, 2197.0 / 4104.0), (&k5, -1.0 / 5.0)]);
    // y5 - y4 formed from the stage values alone (the difference of the two weight rows), so that the
    // rounding of a large state does not enter the estimate: that is also how the library forms it
    let zero = vec![0.0; y.len()];
    let diff = axpy(&zero, &[(&k1, 1.0 / 360.0), (&k3, -128.0 / 4275.0), (&k4, -2197.0 / 75240.0), (&k5, 1.0 / 50.0), (&k6, 2.0 / 55.0)]);
    let e = norm2(&diff) / h.abs();
    (y4, e)
}

/// Bogacki-Shampine 3(2): returns (third-order value that is propagated, |y3 - y2| / h)
pub fn bs23_step(rhs: &dyn Rhs<f64>, t: f64, y: &[f64], h: f64) -> (Vec<f64>, f64) {
    let k1 = scaled(rhs, t, y, h);
    let k2 = scaled(rhs, t + h / 2.0, &axpy(y, &[(&k1, 0.5)]), h);
    let k3 = scaled(rhs, t + 3.0 * h / 4.0, &axpy(y, &[(&k2, 0.75)]), h);
    let y3 = axpy(y, &[(&k1, 2.0 / 9.0), (&k2, 1.0 / 3.0), (&k3, 4.0 / 9.0)]);
    let k4 = scaled(rhs, t + h, &y3, h);
    let zero = vec![0.0; y.len()];
    let diff = axpy(&zero, &[(&k1, -5.0 / 72.0), (&k2, 1.0 / 12.0), (&k3, 1.0 / 9.0), (&k4, -1.0 / 8.0)]);
    let e = norm2(&diff) / h.abs();
    (y3, e)
}

/// Adams-Bashforth predictor / Adams-Moulton corrector over equally spaced points.
/// `hist` = the preceding points, newest first: hist[0] = (t_{i-1}, y_{i-1}), ...
/// steps = 4 (AB4/AM4 = "Adams5") or 2 (AB2/AM2 = "Adams3").
/// Returns (predictor, corrector evaluated with f at the predictor: PEC value)
pub fn adams_pc(rhs: &dyn Rhs<f64>, hist: &[(f64, Vec<f64>)], h: f64, steps: usize) -> (Vec<f64>, Vec<f64>) {
    let fs: Vec<Vec<f64>> = (0..steps).map(|j| f(rhs, hist[j].0, &hist[j].1)).collect();
    let yp = &hist[0].1;
    let t_new = hist[0].0 + h;
    if steps == 4 {
        let pred = axpy(yp, &[(&fs[0], 55.0 * h / 24.0), (&fs[1], -59.0 * h / 24.0), (&fs[2], 37.0 * h / 24.0), (&fs[3], -9.0 * h / 24.0)]);
        let fp = f(rhs, t_new, &pred);
        let corr = axpy(
            yp,
            &[(&fp, 251.0 * h / 720.0), (&fs[0], 646.0 * h / 720.0), (&fs[1], -264.0 * h / 720.0), (&fs[2], 106.0 * h / 720.0), (&fs[3], -19.0 * h / 720.0)],
        );
        (pred, corr)
    } else {
        let pred = axpy(yp, &[(&fs[0], 3.0 * h / 2.0), (&fs[1], -h / 2.0)]);
        let fp = f(rhs, t_new, &pred);
        let corr = axpy(yp, &[(&fp, 5.0 * h / 12.0), (&fs[0], 8.0 * h / 12.0), (&fs[1], -h / 12.0)]);
        (pred, corr)
    }
}

/// BDF-k in the normalised form  y_n + sum_{j>=1} a_j y_{n-j} = beta h f(t_n, y_n)
pub fn bdf_coeffs(k: usize) -> (f64, Vec<f64>) {
    match k {
        1 => (1.0, vec![-1.0]),
        2 => (2.0 / 3.0, vec![-4.0 / 3.0, 1.0 / 3.0]),
        3 => (6.0 / 11.0, vec![-18.0 / 11.0, 9.0 / 11.0, -2.0 / 11.0]),
        4 => (12.0 / 25.0, vec![-48.0 / 25.0, 36.0 / 25.0, -16.0 / 25.0, 3.0 / 25.0]),
        5 => (60.0 / 137.0, vec![-300.0 / 137.0, 300.0 / 137.0, -200.0 / 137.0, 75.0 / 137.0, -12.0 / 137.0]),
        6 => (60.0 / 147.0, vec![-360.0 / 147.0, 450.0 / 147.0, -400.0 / 147.0, 225.0 / 147.0, -72.0 / 147.0, 10.0 / 147.0]),
        _ => panic!("harness: no BDF-{}", k),
    }
}

/// residual of the BDF-k formula at the new point y (at time t), history newest first
pub fn bdf_residual(rhs: &dyn Rhs<f64>, k: usize, t: f64, y: &[f64], hist: &[(f64, Vec<f64>)], h: f64) -> f64 {
    let (beta, a) = bdf_coeffs(k);
    let fy = f(rhs, t, y);
    let mut r: Vec<f64> = y.iter().zip(&fy).map(|(yv, fv)| yv - beta * h * fv).collect();
    for (j, aj) in a.iter().enumerate() {
        for i in 0..r.len() {
            r[i] += aj * hist[j].1[i];
        }
    }
    norm2(&r)
}

/// explicit Euler step
pub fn euler_step(rhs: &dyn Rhs<f64>, t: f64, y: &[f64], h: f64) -> Vec<f64> {
    let k = f(rhs, t, y);
    y.iter().zip(&k).map(|(a, b)| a + h * b).collect()
}

pub fn eval_f(rhs: &dyn Rhs<f64>, t: f64, y: &[f64]) -> Vec<f64> {
    f(rhs, t, y)
}
